#!/bin/bash
# usage: seedtest.sh <patch.diff> <property> [tier]   -- applies a seeded change to /repo, runs the check, reverts
set -u
patch=$1; prop=$2; tier=${3:-quick}
cd /repo || exit 9
if [ -n "$(git status --porcelain)" ]; then echo "repo not clean"; exit 9; fi
git apply "$patch" || { echo "patch does not apply"; exit 9; }
cd /verif && ./check "$prop" --tier "$tier" 2>&1 | grep -E "^(VIOLATION|KNOWN|INCONCLUSIVE|C[0-9]+ tier|  key=)" | cut -c1-400 | head -14
rc=${PIPESTATUS[0]}
git -C /repo checkout -- . && git -C /repo clean -fdq
echo "exit=$rc"
# restore the evidence file of the unchanged tree
git -C /verif checkout -- evidence/$prop.json 2>/dev/null
exit 0
