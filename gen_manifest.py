#!/usr/bin/env python3
"""Regenerates MANIFEST.json from the table below (kept next to the driver so both stay in sync)."""
import json, os
ROOT = os.path.dirname(os.path.abspath(__file__))

BASE_NOTE = "Trusted base: the harness's own reference model/oracle for this property (written from GitHub's documentation, not from actionlint's code), pgregory.net/rapid v1.3.0, the Go toolchain. 'Held' means held on every generated case; absence of violations outside the explored region is not established."

CHECKS = {
 "C01": dict(
   technique="rapid structure-aware hostile mutation of generated and repository inputs on four input channels + native coverage-guided go fuzz targets (thorough); oracle: returns within 20 s x3, no Go panic (recovered in the harness), no process crash (driver recovers the last case), exit status in {0,1,3}",
   text="Generated-input search for crashes and hangs: clean generated workflows / action metadata / reusable workflows / configurations and repository test files receive hostile structural, tag, alias, nesting, expression and byte-level mutations and are fed through Lint, LintFiles (with and without a repository), a local action, a called reusable workflow, ParseConfig and Command.Main; panics inside LintFiles goroutines kill the worker and are recovered by the driver from the last-case file.",
   design="DESIGN.md section 5, C01"),
 "C02": dict(
   technique="rapid-generated collision templates, random workflows with seeded errors and references, repository test data and multi-file worlds; repeat relation: R fresh lints under GOMAXPROCS 1/2/4/16 must give byte-identical output and error sequences; also repeated runs of one Linter value, repeated semantic-checker evaluations and repeated processes of the built command",
   text="Repeat relation over generated cases built to offer several candidates or several diagnostics at one position (format placeholders, missing inputs of actions and reusable workflows, runner label conflicts, several needs cycles, broken local action used by several jobs/files, references to every defined entity from every position); each case is linted 16 (48) times with fresh linters under varying GOMAXPROCS; every run re-randomises map iteration, so an order dependence survives with probability 2^-(R-1).",
   note="Trusted base: Go's per-range map randomisation and scheduler as the source of schedule variety; goroutine interleavings inside one LintFiles run are sampled (GOMAXPROCS, repetition), not enumerated. " + BASE_NOTE,
   design="DESIGN.md section 5, C02"),
 "C03": dict(
   technique="rapid-generated clean workflows from an independent workflow-syntax model; exhaustive per-workflow enumeration of scalar leaves x malformed placeholder forms; expectation (diagnostic at the scalar, syntax kind for template leaves) derived from the model",
   text="For every generated clean workflow (all sections including rare and expression-valued forms, random layout/quoting) every scalar value leaf is replaced in turn by each malformed ${{ }} form and the linter must report at that scalar (an expression syntax error where the model says the value is a template). The model, not actionlint, decides which leaves exist and which are templates.",
   design="DESIGN.md section 5, C03"),
 "C04": dict(
   technique="exhaustive enumeration of short token sequences and character strings + rapid random trees/edits/literals, differential against a reference lexer and precedence-climbing parser; structure compared modulo associativity; sentences also through the linter as placeholders and as bare if: conditions (exhaustive up to 3/4 tokens)",
   text="Generated-input search against an independent reference grammar: all token sequences <=5 (6) tokens and all strings <=4 (5) characters over the lexically relevant alphabet are parsed by actionlint and by the harness's reference parser; verdict (accept/reject), tree structure modulo associativity, literal values and error offset/line/column are compared; random deep trees with known structure, single-token edits, number/string literal fuzz and a sample through the linter extend beyond the exhaustive bound.",
   design="DESIGN.md section 5, C04"),
 "C05": dict(
   technique="rapid generation of workflow shapes with a parallel scope model; one reference probe per line; per-probe comparison of actionlint's 'property is not defined' verdict with the model",
   text="Workflow shapes (needs DAG, step order and id placement, matrices with literal and expression-defined parts, workflow_call/workflow_dispatch inputs, declared/undeclared secrets, job and workflow outputs) are generated together with a scope model; references to defined and undefined names are planted at every kind of position where the context is available and each probe's verdict must equal the model's.",
   design="DESIGN.md section 5, C05"),
 "C06": dict(
   technique="rapid metamorphic testing: (typing environment, expression, loosening) triples; accepted under the environment => accepted under the loosened one; plus clean-workflow variants (fromJSON-defined matrix parts, step ids given as expressions, workflow_dispatch inputs losing their type) and a reference for members of merged open/closed objects",
   text="Metamorphic relation over generated typing environments and expressions: every expression accepted by the semantic checker must still be accepted after one type occurrence is replaced by any or a closed object is opened; the same relation is checked end to end on generated clean workflows whose matrix row/include/whole matrix is replaced by an expression.",
   design="DESIGN.md section 5, C06"),
 "C07": dict(
   technique="rapid-generated workflows rendered by a position-recording YAML emitter: (a) planted constructs with known offending token position, (b) metamorphic shift relation between two layouts of one tree and inserted top lines on repository test data, (c) bounds invariant",
   text="The harness writes the YAML itself and records line/column of every key and scalar, so expected positions are independent of yaml.v3 and actionlint: planted lexer/parser/semantic/key/value/glob constructs must be reported exactly at the recorded token; every diagnostic of a workflow with seeded errors must move with its token between two random layouts; all diagnostics lie inside the file.",
   design="DESIGN.md section 5, C07"),
 "C08": dict(
   technique="rapid metamorphic testing: every name occurrence (YAML keys, id/needs values, expression identifiers/properties/functions/['name'] literals, JSON literal keys) of generated workflow shapes is independently re-spelled; diagnostics must be identical up to case-folded messages",
   text="Metamorphic relation on generated workflows with defined and undefined references: re-spelling the letter case of any subset of name occurrences (same lengths, so positions are unchanged) must leave the multiset of (line, column, kind, case-folded message) unchanged; keywords are checked to stay case-sensitive.",
   design="DESIGN.md section 5, C08"),
 "C09": dict(
   technique="rapid metamorphic testing over histories: workflows composed of independent jobs/steps with expressions biased to filter/property chains; delete/permute unrelated jobs and steps, insert a step, repeat; diagnostics of the observed unit compared relative to its start",
   text="The diagnostics attributed to an observed job or step (relative line, column, kind, normalised message) must be identical when unrelated jobs are deleted or reordered, id-less earlier steps are deleted, an extra expression-only step is inserted before it, or the run is repeated - i.e. for every generated history of rule-internal state before the unit is visited.",
   design="DESIGN.md section 5, C09"),
 "C10": dict(
   technique="rapid-generated multi-repository worlds; differential oracle LintFiles(subset, order, spelling, GOMAXPROCS) vs LintFile alone per file; built-in table fingerprint via a verif-tagged accessor; the same property re-run under the Go race detector",
   text="Worlds with 1-3 repositories (prefix-sharing and nested names, files outside any repository), per-repository configuration, local actions and reusable workflows; per-file diagnostics of a multi-file invocation must equal those of the file linted alone; a fingerprint over every exported and unexported package-level table must not change; extra shards run the property under -race with halt_on_error so that a data race kills the worker and the driver recovers the world from the last-case file.",
   note="Interleavings are sampled (GOMAXPROCS 1/2/4/16, repetition, up to 10 files), not enumerated; the race detector only reports races on executed paths. " + BASE_NOTE,
   design="DESIGN.md section 5, C10"),
 "C11": dict(
   technique="rapid grammar-based generation of access chains over the documented untrusted paths and trusted relatives, in all spellings and embeddings; differential against a stateless top-down taint model over the harness's reference AST; positions checked through the linter",
   text="Expressions built from the documented untrusted paths (and trusted siblings/prefixes/extensions) with random per-segment spelling, array index/filter forms and embeddings are checked at the semantic-checker level and through the linter in script and non-script positions; the reported path sets and columns must equal those computed by an independent taint model on the harness's own parse tree.",
   design="DESIGN.md section 5, C11"),
 "C12": dict(
   technique="complete enumeration of (template leaf position of the workflow model) x (12 contexts + 5 special functions) x embeddings against a pinned transcription of GitHub's context availability table",
   text="Finite space enumerated completely: every template leaf path of the workflow-syntax model is mapped to its governing table key (longest-prefix rule) and probed with every context name and special function in ten embeddings and both letter cases; a 'not allowed here' diagnostic must appear iff the pinned official table does not list the name for that key.",
   design="DESIGN.md section 5, C12"),
 "C13": dict(
   technique="rapid-generated clean workflows (optionally with seeded sibling errors) x every mapping x {foreign key, duplicate key, removed mandatory key, removal next to a misplaced sibling}; expected report positions from the position-recording emitter and the section model",
   text="For every mapping of generated workflows, insertion of a foreign key (fresh, from another section, letter-case variant), duplication of a key (also in other letter case for case-insensitive user-named mappings) and removal of each mandatory key are applied; the model predicts a syntax-check diagnostic at the key (item for schedule), at the repetition, or a new diagnostic for the removal, and all diagnostics of the base must survive.",
   design="DESIGN.md section 5, C13"),
 "C14": dict(
   technique="complete enumeration of the bundled popular-actions table + rapid-generated local actions and local reusable workflows in temporary repositories; expected diagnostic set computed from the generated/exported interface; callee linted alone and together with the caller in both orders",
   text="Call sites (random subsets of declared names in random case and order, undeclared names, dropped required names, typed values, output references) against every bundled action spec and against generated well-formed local actions and reusable workflows; the set of {undefined input/secret, missing required, undefined output, unassignable typed value} diagnostics with their lines must equal the set computed from the interface, for both interface derivations (file and in-memory AST).",
   design="DESIGN.md section 5, C14"),
 "C15": dict(
   technique="rapid-generated worlds run through the built actionlint binary from 12 (cwd, path spelling) combinations; reference filter (Go regexp on messages + harness glob matcher on the repository-relative path) applied to the unfiltered baseline; exit-status oracle",
   text="Each generated world (workflow with 0-8 distinct diagnostics, `paths` globs with ignore regexes, -ignore regexes built from message fragments incl. inline flags, invalid regex / flag) is executed as a real process from the repository root, its parent, a nested and an unrelated directory with relative, ./-prefixed, absolute and no path arguments; output must equal the unfiltered list minus matched messages in unchanged order for every combination, and the exit status must be 0/1/2/3 as specified.",
   design="DESIGN.md section 5, C15"),
 "C16": dict(
   technique="rapid generation of (line, column, source) triples for the snippet renderer with a reference rendering; rapid-generated workflows echoing hostile strings rendered in five output modes, round-tripped through the shipped problem-matcher regexp and JSON",
   text="Renderer in isolation over arbitrary positions and byte sources (never panics, header exact, snippet is the referenced line, caret at the display cell of the column, nothing for missing lines) and end-to-end over workflows whose user-controlled strings are hostile: one line per diagnostic, shipped matcher regexp parses each line back to the same fields, default mode equals a reference rendering, JSON round-trips, no line breaks in messages.",
   design="DESIGN.md section 5, C16"),
 "C17": dict(
   technique="exhaustive enumeration of strings <=5 (6) characters over a 19-character alphabet + rapid random longer strings against a three-valued reference validator; implication, column and named-character invariants; sampled through the linter",
   text="All short strings over the special/ordinary/ref-forbidden/whitespace/control/non-ASCII representatives are validated as ref and as path filter and compared with a reference validator written from the filter-pattern cheat sheet and git's ref character rules (strings the documentation leaves open are not compared); ref-accept implies path-accept, columns lie in the pattern on the character the message names, and linter positions equal scalar start + column.",
   design="DESIGN.md section 5, C17"),
 "C18": dict(
   technique="exhaustive enumeration of small needs graphs + rapid random graphs against a reference graph model (Kahn cyclicity, case-folded resolution); printed cycle validated edge by edge",
   text="Generated-input search with an explicit reference model: every needs graph up to 3 jobs with ordered/duplicated/dangling entries, every edge set on 4 jobs (5 in the thorough tier), and random graphs with 6-30 jobs are linted and compared with a reference graph algorithm (dangling set, cyclic iff exactly one report, printed path is a real simple cycle).",
   design="DESIGN.md section 5, C18"),
 "C19": dict(
   technique="rapid generation of matrix value trees from a small pool with derived (equal / subset / superset / changed / permuted) values; reference model for duplicate and exclude verdicts with exact positions; permutation metamorphic relation",
   text="Matrices with nested scalar/sequence/mapping values, include/exclude entries derived from row values and expression-defined parts are checked against a reference model (deep equality; subset/element-wise/equality containment over row values plus include assignments) with exact report positions, and re-rendered under random permutations of rows, values, members and entries, which must not change the number of reports of each class.",
   design="DESIGN.md section 5, C19"),
 "C20": dict(
   technique="rapid-generated worlds with a stand-in shellcheck/pyflakes whose latency and failure plan are generated; reference model of the effective shell; trace invariants over verif-tagged schedule points with injected delays; CPU pinning to make the bound small; race-detector shard",
   text="The stand-in tool logs every invocation (pid, marker, stdin, start/end) and behaves per a generated plan (ok, k issues, silent non-zero exit, SIGKILL with and without output, empty, garbage); expected invocations and stdin come from a reference shell-resolution and sanitisation model; diagnostics must equal the printed issues at the run: key; planned failures must be fatal; the number of running tools never exceeds NumCPU (process pinned to 2 or 4 CPUs) in the schedule trace and the tool log; everything has ended, been collected and called back when LintFiles returns.",
   note="Schedules are steered (tool latency patterns, seeded delays at the hook points), not enumerated; a violation needing a specific preemption inside the Go runtime can be missed. " + BASE_NOTE,
   design="DESIGN.md section 5, C20"),
}

NOT_YET = {}

def main():
    props = [json.loads(l) for l in open(os.path.join(ROOT, "properties.jsonl"))]
    checks, na = [], []
    for p in props:
        pid = p["id"]
        if pid in CHECKS:
            c = CHECKS[pid]
            checks.append({
                "property_id": pid,
                "quick_cmd": "./check %s --tier quick" % pid,
                "thorough_cmd": "./check %s --tier thorough" % pid,
                "evidence_file": "/verif/evidence/%s.json" % pid,
                "replay_cmd_template": "./check %s --replay {path}" % pid,
                "engine": "harness",
                "level_claimed": {"category": "exploration", "text": c["text"], "design_ref": c["design"]},
                "level_note": c.get("note", BASE_NOTE),
                "technique": c["technique"],
            })
        else:
            na.append({"property_id": pid, "reason": NOT_YET.get(pid, "check not built yet in this round (planned in DESIGN.md section 5); not claimed until its check exists and is silent on the unchanged tree")})
    m = {
        "version": 1,
        "setup_cmd": "./check --setup",
        "hooks": {
            "guard": "verif",
            "enable": "go build tag: the harness module (replace github.com/rhysd/actionlint => /repo) is compiled with `-tags verif`",
            "baseline_off_cmd": "cd /repo && GOFLAGS=-mod=mod go test -json -vet=off -count=1 -timeout 25m ./...",
            "source_commits": HOOK_COMMITS,
            "add_only": True,
        },
        "engines": [{"name": "harness", "path": "/verif/harness", "serves_properties": sorted(CHECKS), "kind_free_text": "Go test binary (rapid properties, exhaustive enumerators, native fuzz targets) driven by /verif/check (python3, stdlib only)"}],
        "checks": checks,
        "notes": "Driver: ./check <id> --tier quick|thorough; VERIF_SEED selects the rapid seeds; replay files under evidence/replay and corpus/<id>; known findings in known_findings.json.",
        "not_applicable": na,
    }
    json.dump(m, open(os.path.join(ROOT, "MANIFEST.json"), "w"), indent=1)
    print("checks:", len(checks), "not claimed:", len(na))

HOOK_COMMITS = ["33bd68d"]  # verif_hooks.go, verif_hooks_off.go, verifSched(...) lines in process.go
if __name__ == "__main__":
    main()
