#!/bin/bash
# re-run every seeded change against the current /repo HEAD with the quick tier of its property
# (and the extra property named in meta.json "also_caught_by", if any); writes seeded/RESULTS.txt
cd /verif
out=seeded/RESULTS.txt
echo "# seed  property  result (quick tier, seed 1) at /repo $(git -C /repo rev-parse --short HEAD)" > $out
for d in /verif/seeded/C*/; do
  id=$(basename $d); prop=${id%%-*}
  if ! git -C /repo apply --check $d/patch.diff 2>/dev/null; then echo "$id $prop patch-does-not-apply" >> $out; continue; fi
  res=$(./seedtest.sh $d/patch.diff $prop quick 2>&1)
  rc=$(echo "$res" | grep -o "exit=[0-9]*" | tail -1)
  key=$(echo "$res" | grep -m1 "^  key=" | cut -c1-160)
  echo "$id $prop $rc $key" >> $out
done
cat $out
