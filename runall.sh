#!/bin/bash
# usage: runall.sh <tier> <seed>...   runs every claimed check once per seed, prints one line per run
tier=$1; shift
cd "$(dirname "$0")"
for seed in "$@"; do
  for id in $(python3 -c "import json;print(' '.join(c['property_id'] for c in json.load(open('MANIFEST.json'))['checks']))"); do
    out=$(VERIF_SEED=$seed ./check $id --tier $tier 2>&1); rc=$?
    echo "seed=$seed $id rc=$rc $(echo "$out" | grep -E "^C[0-9]+ tier" | tail -1)"
    echo "$out" | grep -E "^VIOLATION|^INCONCLUSIVE|^  key=" | cut -c1-300
  done
done
