#!/bin/bash
# usage: confirm_seed.sh <srcdir with patch.diff, demo_test.go, meta.json> <name under /verif/seeded>
# Confirms in a scratch worktree of /repo HEAD: patch applies, compiles, suite unchanged, demo fails with / passes without.
set -u
src=$1; name=$2
export GOFLAGS=-mod=mod GOPROXY=off GOSUMDB=off GOTOOLCHAIN=local
wt=/tmp/confirm-$name
git -C /repo worktree remove --force $wt 2>/dev/null
git -C /repo worktree add -q --detach $wt HEAD || exit 9
res=$wt.result; : > $res
demo=$(ls $src/*_test.go 2>/dev/null | head -1)
testname=$(grep -oE 'func (Test[A-Za-z0-9_]+)' $demo | awk '{print $2}' | paste -sd'|')
testname="($testname)"
cd $wt
cp $demo $wt/zz_seed_demo_test.go
go test -vet=off -count=1 -run "^${testname}\$" . > $wt.base.log 2>&1; base_rc=$?
git apply $src/patch.diff || { echo "PATCH DOES NOT APPLY to current HEAD" | tee -a $res; }
go build ./... > $wt.build.log 2>&1; build_rc=$?
go test -vet=off -count=1 -run "^${testname}\$" . > $wt.patched.log 2>&1; patched_rc=$?
rm -f $wt/zz_seed_demo_test.go
go test -vet=off -count=1 . ./scripts/check-checks > $wt.suite.log 2>&1; suite_rc=$?
echo "name=$name test=$testname build_rc=$build_rc demo_without_patch_rc=$base_rc demo_with_patch_rc=$patched_rc suite_rc=$suite_rc" | tee -a $res
ok=0
if [ $build_rc -eq 0 ] && [ $base_rc -eq 0 ] && [ $patched_rc -ne 0 ] && [ $suite_rc -eq 0 ]; then ok=1; fi
if [ $ok -eq 1 ]; then
  mkdir -p /verif/seeded/$name
  cp $src/patch.diff /verif/seeded/$name/patch.diff
  cp $demo /verif/seeded/$name/demo_test.go
  python3 - "$src/meta.json" "/verif/seeded/$name/meta.json" "$testname" <<'PY'
import json,sys,subprocess
try: m=json.load(open(sys.argv[1]))
except Exception as e: m={"meta_error":str(e)}
m["confirmed_by_main"]={"base_commit":subprocess.run(["git","-C","/repo","log","--format=%h","-1"],capture_output=True,text=True).stdout.strip(),
 "ran":["git apply patch.diff in a scratch worktree of /repo HEAD","go build ./...","go test -vet=off -count=1 . ./scripts/check-checks (pass)","go test -run ^%s$ . with demo_test.go copied in: FAIL with patch, PASS without"%sys.argv[3]]}
json.dump(m,open(sys.argv[2],"w"),indent=1)
PY
  echo CONFIRMED
else
  echo "NOT CONFIRMED"; tail -n 5 $wt.base.log $wt.patched.log $wt.suite.log
fi
cd /; git -C /repo worktree remove --force $wt; rm -f $wt.*.log $res
