package checks

import (
	"bytes"
	"encoding/json"
	"fmt"
	al "github.com/rhysd/actionlint"
	"path/filepath"
	"regexp"
	"sort"
	"strings"
	"testing"
	"verifharness/world"

	"pgregory.net/rapid"
	"verifharness/hx"
)

// ---- C08: names are matched case-insensitively everywhere ---------------------------------------------

type c08Case struct {
	A string `json:"a"` // base spelling
	B string `json:"b"` // same workflow, names re-spelled (same lengths)
}

func c08Norm(ds []Diag) []string {
	var out []string
	for _, d := range ds {
		out = append(out, fmt.Sprintf("%d:%d|%s|%s", d.Line, d.Col, d.Kind, strings.ToLower(d.Msg)))
	}
	sort.Strings(out)
	return out
}

func checkCaseRespelling(c *c08Case) (key, msg string, ndiag int) {
	da, err, pan, st := lintSafe([]byte(c.A))
	if pan != nil || err != nil {
		return "C08/panic-or-fatal", fmt.Sprintf("%v %v %s\n%s", pan, err, st, c.A), 0
	}
	db, err, pan, st := lintSafe([]byte(c.B))
	if pan != nil || err != nil {
		return "C08/panic-or-fatal", fmt.Sprintf("%v %v %s\n%s", pan, err, st, c.B), 0
	}
	for _, d := range da {
		if strings.HasPrefix(d.Msg, "could not parse as YAML") {
			return "harness/c08-invalid-yaml", d.String() + "\n" + c.A, 0
		}
	}
	na, nb := c08Norm(da), c08Norm(db)
	if strings.Join(na, "\n") != strings.Join(nb, "\n") {
		onlyA, onlyB := diffStrings(na, nb)
		key := "C08/diagnostics-change-with-letter-case"
		all := strings.Join(append(onlyA, onlyB...), "\n")
		switch {
		case strings.Contains(c.A+c.B, "fromJSON('") && strings.Contains(all, "is not defined in object type") && jsonKeyCaseDiffers(c.A, c.B):
			key = "C08/fromjson-literal-key-case"
		}
		return key, fmt.Sprintf("re-spelling names changed the diagnostics.\nonly with spelling A: %v\nonly with spelling B: %v\n--- A\n%s\n--- B\n%s", onlyA, onlyB, c.A, c.B), len(da)
	}
	return "", "", len(da)
}

var reQuotedName = regexp.MustCompile(`"[^"]*"`)

type c08World struct {
	A map[string]string `json:"a"`
	B map[string]string `json:"b"`
}

// checkWorldRespelling lints .github/workflows/w.yml of both worlds (caller alone and together with
// the callee) and compares the caller's diagnostics up to letter case of the messages.
func checkWorldRespelling(c *c08World) (key, msg string, ndiag int) {
	run := func(files map[string]string, together bool) ([]string, string) {
		w := world.New()
		defer w.Cleanup()
		w.Repo("")
		for p, s := range files {
			w.Write(p, s)
		}
		var out []Diag
		var pan any
		var ferr error
		func() {
			defer func() { pan = recover() }()
			l, _ := al.NewLinter(&bytes.Buffer{}, &al.LinterOptions{WorkingDir: w.Root})
			paths := []string{filepath.Join(w.Root, ".github/workflows/w.yml")}
			if together {
				paths = append(paths, filepath.Join(w.Root, ".github/workflows/callee.yml"))
			}
			errs, err := l.LintFiles(paths, nil)
			ferr = err
			for _, e := range errs {
				if strings.HasSuffix(e.Filepath, "w.yml") {
					// messages about unreadable files name the temporary directory of this world
					out = append(out, Diag{e.Line, e.Column, e.Kind, strings.ReplaceAll(e.Message, w.Root, "<root>"), e.Filepath})
				}
			}
		}()
		if pan != nil || ferr != nil {
			return nil, fmt.Sprintf("%v %v", pan, ferr)
		}
		// lists of defined names are printed in the order of their spelling: compare them as sets
		for i := range out {
			var names []string
			out[i].Msg = reQuotedName.ReplaceAllStringFunc(strings.ToLower(out[i].Msg), func(q string) string {
				names = append(names, q)
				return "Q"
			})
			sort.Strings(names)
			out[i].Msg += " " + strings.Join(names, ",")
		}
		return c08Norm(out), ""
	}
	for _, together := range []bool{false, true} {
		na, e1 := run(c.A, together)
		nb, e2 := run(c.B, together)
		if e1 != "" || e2 != "" {
			return "C08/panic-or-fatal", e1 + " " + e2, 0
		}
		ndiag = len(na)
		if strings.Join(na, "\n") != strings.Join(nb, "\n") {
			onlyA, onlyB := diffStrings(na, nb)
			return "C08/diagnostics-change-with-letter-case(definition-in-other-file)", fmt.Sprintf("re-spelling names changed the diagnostics of the caller (callee in the same run: %v).\nonly with the plain spelling: %v\nonly with the re-spelled names: %v\n--- action.yml\n%s\n--- callee.yml\n%s\n--- w.yml\n%s", together, onlyA, onlyB, c.B["act/action.yml"], c.B[".github/workflows/callee.yml"], c.B[".github/workflows/w.yml"]), ndiag
		}
	}
	return "", "", ndiag
}

var reJSONLit = regexp.MustCompile(`(?i)fromjson\('([^']*)'\)`)

func jsonKeyCaseDiffers(a, b string) bool {
	ma, mb := reJSONLit.FindAllStringSubmatch(a, -1), reJSONLit.FindAllStringSubmatch(b, -1)
	if len(ma) != len(mb) {
		return true
	}
	for i := range ma {
		if ma[i][1] != mb[i][1] {
			return true
		}
	}
	return false
}

func diffStrings(a, b []string) (onlyA, onlyB []string) {
	cnt := map[string]int{}
	for _, x := range a {
		cnt[x]++
	}
	for _, x := range b {
		cnt[x]--
	}
	for x, n := range cnt {
		for ; n > 0; n-- {
			onlyA = append(onlyA, x)
		}
		for ; n < 0; n++ {
			onlyB = append(onlyB, x)
		}
	}
	sort.Strings(onlyA)
	sort.Strings(onlyB)
	return
}

func init() {
	hx.RegisterReplayer("C08/world", func(r *hx.Run, data json.RawMessage) {
		var c c08World
		if err := json.Unmarshal(data, &c); err != nil {
			panic(err)
		}
		if k, m, _ := checkWorldRespelling(&c); k != "" {
			r.Report(k, m, "C08/world", &c)
		}
	})
	hx.RegisterReplayer("C08/respell", func(r *hx.Run, data json.RawMessage) {
		var c c08Case
		if err := json.Unmarshal(data, &c); err != nil {
			panic(err)
		}
		if k, m, _ := checkCaseRespelling(&c); k != "" {
			r.Report(k, m, "C08/respell", &c)
		}
	})
}

// name families that occur as YAML keys / needs entries / step ids in the generated shapes
var reYAMLName = regexp.MustCompile(`(?i)\b(job\d+|s\d+(j\d+)?|din\d|cin\d|tok\d|out\d|wout\d|os|ver|cfg|extra|fetch-depth|ref|token|plat|alpha|beta|gamma|delta|zeta|az|z)\b`)
var reIdent = regexp.MustCompile(`[A-Za-z_][A-Za-z0-9_-]*`)
var reJSONKey = regexp.MustCompile(`"([A-Za-z_]+)"\s*:`)

type respeller struct {
	t      *rapid.T
	counts map[string]int
}

func (rs *respeller) spell(s, site string) string {
	var out string
	switch rapid.IntRange(0, 5).Draw(rs.t, "respell") {
	case 0:
		out = strings.ToUpper(s)
	case 1:
		out = strings.ToLower(s)
	case 2:
		var b strings.Builder
		for i, r := range s {
			if i%2 == 0 {
				b.WriteString(strings.ToUpper(string(r)))
			} else {
				b.WriteString(strings.ToLower(string(r)))
			}
		}
		out = b.String()
	case 4: // exactly one letter in upper case (a fast path looking for "any capital" sees only this one)
		low := []rune(strings.ToLower(s))
		if len(low) > 0 {
			i := rapid.IntRange(0, len(low)-1).Draw(rs.t, "capital-at")
			low[i] = []rune(strings.ToUpper(string(low[i])))[0]
		}
		out = string(low)
	case 5: // every letter independently
		var b strings.Builder
		for _, r := range s {
			if rapid.Bool().Draw(rs.t, "up") {
				b.WriteString(strings.ToUpper(string(r)))
			} else {
				b.WriteString(strings.ToLower(string(r)))
			}
		}
		out = b.String()
	default:
		out = s
	}
	if out != s {
		rs.counts[site]++
	}
	return out
}

// expr re-spells identifiers of one expression (outside string literals; keywords untouched) and
// JSON keys inside fromJSON('...') literals.
func (rs *respeller) expr(src string) string {
	var b strings.Builder
	i := 0
	lastIdent := ""
	for i < len(src) {
		c := src[i]
		if c == '\'' {
			j := i + 1
			for j < len(src) {
				if src[j] == '\'' {
					if j+1 < len(src) && src[j+1] == '\'' {
						j += 2
						continue
					}
					break
				}
				j++
			}
			lit := src[i:min(j+1, len(src))]
			if strings.EqualFold(lastIdent, "fromjson") {
				lit = reJSONKey.ReplaceAllStringFunc(lit, func(m string) string {
					sm := reJSONKey.FindStringSubmatch(m)
					return strings.Replace(m, sm[1], rs.spell(sm[1], "json-literal-key"), 1)
				})
			} else if len(lit) > 2 && reYAMLName.MatchString(lit) && i > 0 && src[i-1] == '[' {
				// string literal used as index: ['name']
				inner := lit[1 : len(lit)-1]
				if reYAMLName.FindString(inner) == inner {
					lit = "'" + rs.spell(inner, "expression-index-literal") + "'"
				}
			}
			b.WriteString(lit)
			i = min(j+1, len(src))
			continue
		}
		if m := reIdent.FindString(src[i:]); m != "" && (c == '_' || c >= 'a' && c <= 'z' || c >= 'A' && c <= 'Z') {
			switch m {
			case "true", "false", "null":
				b.WriteString(m)
			default:
				site := "expression-identifier"
				if i > 0 && src[i-1] == '.' {
					site = "expression-property"
				} else if i+len(m) < len(src) && src[i+len(m)] == '(' {
					site = "expression-function"
				}
				b.WriteString(rs.spell(m, site))
			}
			lastIdent = m
			i += len(m)
			continue
		}
		b.WriteByte(c)
		i++
	}
	return b.String()
}

// text re-spells name occurrences of a whole workflow text.
func (rs *respeller) text(src string) string {
	var out strings.Builder
	for _, line := range strings.SplitAfter(src, "\n") {
		rest := line
		for {
			i := strings.Index(rest, "${{")
			if i < 0 {
				out.WriteString(rs.yaml(rest))
				break
			}
			j := strings.Index(rest[i:], "}}")
			if j < 0 {
				out.WriteString(rs.yaml(rest))
				break
			}
			out.WriteString(rs.yaml(rest[:i]))
			out.WriteString("${{")
			out.WriteString(rs.expr(rest[i+3 : i+j]))
			out.WriteString("}}")
			rest = rest[i+j+2:]
		}
	}
	return out.String()
}

var reYAMLKeyLine = regexp.MustCompile(`^(\s*(?:- )?)([A-Za-z0-9_-]+)(:\s*)(.*)$`)

// yaml re-spells names in the non-expression part of a line: mapping keys of name families, `id:`
// values, `needs:` entries.
func (rs *respeller) yaml(seg string) string {
	body := strings.TrimRight(seg, "\n")
	nl := seg[len(body):]
	m := reYAMLKeyLine.FindStringSubmatch(body)
	if m == nil {
		return seg
	}
	key, val := m[2], m[4]
	switch {
	case key == "id" || key == "needs":
		val = reYAMLName.ReplaceAllStringFunc(val, func(x string) string { return rs.spell(x, "yaml-"+key+"-value") })
	case reYAMLName.FindString(key) == key:
		key = rs.spell(key, "yaml-key")
	}
	return m[1] + key + m[3] + val + nl
}

func TestC08(t *testing.T) {
	hx.Main(t, "C08", func(r *hx.Run) {
		r.Rule = "workflow shapes of the C05 generator (jobs, needs, step ids, matrix keys, inputs, secrets, outputs with defined and undefined references in dot and ['x'] form) extended with action `with:` keys, runner labels taken from matrix rows (runs-on: ${{ matrix.os }} with unknown labels among the row values), built-in function calls and fromJSON('{...}') literals with property access; every name occurrence (YAML key of a case-insensitive mapping, id: value, needs: entry, expression identifier / property / function name / ['name'] literal, JSON literal key) is independently re-spelled (upper / lower / alternating / one capital letter / every letter at random / unchanged). A second family defines the names in other files (inputs / outputs of a local action, inputs / secrets / outputs of a local reusable workflow, linted alone and with the callee in the run): definition and uses are re-spelled independently. Oracle: the multiset of (line, column, kind, case-folded message) is identical for both spellings. Non-trivial = at least one occurrence re-spelled and the workflow has >= 1 diagnostic or >= 3 name uses; distinct = pair of texts. Negative control: TRUE/FALSE/NULL must become undefined variables."
		r.Assumptions = []string{"never re-spelled: keywords true/false/null, string literal contents that are not ['name'] indexes or JSON keys, permission scopes, event names, action specs, shell names, runner labels, env variable names"}
		sites := map[string]int64{}
		r.Check(t, "respell", hx.N(4000, 80000), func(rt *rapid.T) {
			c5, _, _ := genC05Shape(rt, func(g *c05gen) {
				// extra job with action inputs, function calls and JSON literals
				y := g.y
				y.ln("  zlast:")
				y.ln("    runs-on: ubuntu-latest")
				y.ln("    steps:")
				y.ln("      - uses: actions/checkout@v4")
				y.ln("        with:")
				y.ln("          fetch-depth: 0")
				y.ln("          ref: main")
				if g.b("tokenkey") {
					y.ln("          token: x")
				}
				exprs := []string{
					"fromJSON('{\"foo\":1,\"bar\":{\"baz\":true}}').foo",
					"fromJSON('{\"foo\":1,\"bar\":{\"baz\":true}}').bar.baz",
					"fromJSON('{\"foo\":1}').nosuch",
					"fromJSON('[{\"name\":\"x\"}]')[0].name",
					"contains(github.ref, 'main') && startsWith(github.sha, 'a')",
					"format('{0}', toJSON(github.event)) == join(fromJSON('[\"a\"]'), ',')",
					"hashFiles('**/go.sum')",
					"github.event_name == 'push' && runner.os == 'Linux'",
					"env.FIXED",
					"github['sha']",
					"always() || success() || failure() || cancelled()",
				}
				// matrix values that are mappings: their member names are property names too
				if g.b("objmatrix") {
					y.ln("  zmatrix:")
					y.ln("    runs-on: ubuntu-latest")
					y.ln("    strategy:")
					y.ln("      matrix:")
					y.ln("        plat:")
					y.ln("          - alpha: 1")
					y.ln("            beta: x")
					y.ln("          - alpha: 2")
					y.ln("            beta: y")
					y.ln("            zeta: 1")
					y.ln("            az: 1")
					y.ln("            z: 1")
					y.ln("            delta:")
					y.ln("              gamma: 1")
					if g.b("objinclude") {
						y.ln("        include:")
						y.ln("          - plat:")
						y.ln("              alpha: 3")
						y.ln("              beta: z")
						y.ln("            extra:")
						y.ln("              gamma: 1")
					}
					if g.b("objexclude") {
						y.ln("        exclude:")
						y.ln("          - plat:")
						y.ln("              alpha: 1")
					}
					y.ln("    steps:")
					for _, e := range []string{"matrix.plat.alpha", "matrix.plat.beta == 'x'", "matrix.plat.delta.gamma", "matrix.extra.gamma", "matrix.plat.nosuch", "matrix.plat['alpha']", "matrix.plat.zeta", "matrix.plat.az", "matrix.plat.z", "matrix.plat.zeta.nosuch", "toJSON(matrix.plat.delta)"} {
						if g.b("objuse") {
							y.ln("      - run: echo")
							y.ln("        env:")
							y.ln("          V: ${{ %s }}", e)
						}
					}
				}
				// runner labels taken from the matrix: the label rule resolves matrix.<row> to the row's values
				if g.b("runnermatrix") {
					y.ln("  zrunner:")
					y.ln("    strategy:")
					y.ln("      matrix:")
					y.ln("        os: [ubuntu-latest, %s]", rapid.SampledFrom([]string{"ubuntu-oldest", "windows-latest", "linux-zz"}).Draw(g.t, "badlabel"))
					y.ln("        arch: [x64, arm64]")
					if g.b("runnerinclude") {
						y.ln("        include:")
						y.ln("          - os: macos-zz")
						y.ln("            arch: x64")
					}
					switch g.i("runsonform", 0, 2) {
					case 0:
						y.ln("    runs-on: ${{ matrix.os }}")
					case 1:
						y.ln("    runs-on: [self-hosted, '${{ matrix.os }}', '${{ matrix.arch }}']")
					default:
						y.ln("    runs-on:")
						y.ln("      labels: ${{ matrix.os }}")
					}
					y.ln("    steps:")
					y.ln("      - run: echo ${{ matrix.arch }}")
				}
				// the same kinds of expression in script positions, where the untrusted-input analysis runs
				scriptExprs := []string{
					"startsWith(github.event.issue.title, 'x')", "endsWith(github.head_ref, 'y')", "contains(github.event.pull_request.body, 'z')",
					"github.event.issue.title", "github.event.pull_request.head.ref", "format('{0}', github.event.comment.body)",
					"contains(fromJSON('[\"a\"]'), github.event.review.body) && startsWith(github.event.discussion.title, 'q')",
					"github.event.commits.*.message", "github['event']['head_commit']['message']", "toJSON(github.event.pages.*.page_name)",
				}
				n := g.i("nextra", 1, 4)
				for i := 0; i < n; i++ {
					if g.b("script") {
						if g.b("ghscript") {
							y.ln("      - uses: actions/github-script@v7")
							y.ln("        with:")
							y.ln("          script: console.log(${{ %s }})", rapid.SampledFrom(scriptExprs).Draw(g.t, "sexpr"))
						} else {
							y.ln("      - run: echo ${{ %s }}", rapid.SampledFrom(append(append([]string{}, scriptExprs...), exprs...)).Draw(g.t, "sexpr"))
						}
						continue
					}
					y.ln("      - run: echo")
					y.ln("        env:")
					y.ln("          V: ${{ %s }}", rapid.SampledFrom(exprs).Draw(g.t, "xexpr"))
				}
			})
			rs := &respeller{t: rt, counts: map[string]int{}}
			c := &c08Case{A: c5.YAML, B: rs.text(c5.YAML)}
			if len(c.A) != len(c.B) {
				rt.Fatalf("harness: re-spelling changed the length")
			}
			k, m, nd := checkCaseRespelling(c)
			r.Eval()
			total := 0
			for s, n := range rs.counts {
				sites[s] += int64(n)
				total += n
			}
			if c.A != c.B && (nd > 0 || total >= 3) {
				r.NT(c.A, c.B)
			}
			r.Class(fmt.Sprintf("respelled-occurrences=%d", min(total/5*5, 30)))
			r.Sample(map[string]string{"a": c.A, "b": c.B})
			if k != "" {
				r.Fail(rt, k, m, "C08/respell", c)
			}
		})
		r.Extra["respelled_occurrences_by_site_kind"] = sites
		// names defined in another file: inputs / outputs of a local action, inputs / secrets / outputs of
		// a local reusable workflow. Definition and every use are re-spelled independently.
		r.Check(t, "respell-definitions-in-other-files", hx.N(600, 12000), func(rt *rapid.T) {
			rs := &respeller{t: rt, counts: map[string]int{}}
			sp := func(n string) string { return rs.spell(n, "other-file-name") }
			plain := func(n string) string { return n }
			render := func(f func(string) string) map[string]string {
				var a, c, w strings.Builder
				a.WriteString("name: act\ndescription: d\ninputs:\n")
				fmt.Fprintf(&a, "  %s:\n    description: d\n    required: true\n", f("token"))
				fmt.Fprintf(&a, "  %s:\n    description: d\n    required: true\n    default: x\n", f("level"))
				fmt.Fprintf(&a, "  %s:\n    description: d\n", f("opt-in"))
				fmt.Fprintf(&a, "outputs:\n  %s:\n    description: d\n  %s:\n    description: d\nruns:\n  using: node20\n  main: index.js\n", f("result"), f("other_out"))
				c.WriteString("on:\n  workflow_call:\n    inputs:\n")
				fmt.Fprintf(&c, "      %s:\n        type: string\n        required: true\n", f("name"))
				fmt.Fprintf(&c, "      %s:\n        type: number\n", f("count"))
				fmt.Fprintf(&c, "    secrets:\n      %s:\n        required: true\n      %s:\n        required: false\n", f("api_key"), f("extra"))
				fmt.Fprintf(&c, "    outputs:\n      %s:\n        value: x\njobs:\n  j:\n    runs-on: ubuntu-latest\n    steps:\n      - run: echo ${{ inputs.%s }}\n", f("built"), f("name"))
				w.WriteString("on: push\njobs:\n  a:\n    runs-on: ubuntu-latest\n    steps:\n      - uses: ./act\n        id: s1\n        with:\n")
				fmt.Fprintf(&w, "          %s: x\n          %s: y\n          zz-undeclared: z\n", f("token"), f("opt-in"))
				fmt.Fprintf(&w, "      - run: echo ${{ steps.s1.outputs.%s }} ${{ steps.s1.outputs.%s }} ${{ steps.s1.outputs.zz_nosuch }}\n", f("result"), f("other_out"))
				w.WriteString("      - uses: ./act\n        with:\n")
				fmt.Fprintf(&w, "          %s: v\n", f("level"))
				w.WriteString("  call:\n    uses: ./.github/workflows/callee.yml\n    with:\n")
				fmt.Fprintf(&w, "      %s: n\n      %s: abc\n      zz-undeclared: 1\n", f("name"), f("count"))
				fmt.Fprintf(&w, "    secrets:\n      %s: ${{ secrets.X }}\n      zz-nosuch-secret: y\n", f("api_key"))
				w.WriteString("  call2:\n    uses: ./.github/workflows/callee.yml\n")
				fmt.Fprintf(&w, "  after:\n    needs: [call]\n    runs-on: ubuntu-latest\n    steps:\n      - run: echo ${{ needs.call.outputs.%s }} ${{ needs.call.outputs.zz_nosuch }}\n", f("built"))
				// several jobs sharing a broken local action / a missing local workflow: that is reported
				// once, at the first of them in the file, whatever the ids are called
				fmt.Fprintf(&w, "  %s:\n    runs-on: ubuntu-latest\n    steps:\n      - uses: ./broken\n", f("second_user"))
				fmt.Fprintf(&w, "  %s:\n    runs-on: ubuntu-latest\n    steps:\n      - uses: ./broken\n", f("first_user"))
				fmt.Fprintf(&w, "  %s:\n    uses: ./.github/workflows/missing.yml\n", f("zcall"))
				fmt.Fprintf(&w, "  %s:\n    uses: ./.github/workflows/missing.yml\n", f("acall"))
				return map[string]string{"act/action.yml": a.String(), "act/index.js": "", "broken/action.yml": "name: [\n", ".github/workflows/callee.yml": c.String(), ".github/workflows/w.yml": w.String()}
			}
			c := &c08World{A: render(plain), B: render(sp)}
			k, m, nd := checkWorldRespelling(c)
			r.Eval()
			total := 0
			for s, n := range rs.counts {
				sites[s] += int64(n)
				total += n
			}
			if total > 0 && nd > 0 {
				r.NT(c.B[".github/workflows/w.yml"], c.B["act/action.yml"], c.B[".github/workflows/callee.yml"])
			}
			r.Class("definitions-in-other-files")
			if k != "" {
				r.Fail(rt, k, m, "C08/world", c)
			}
		})
		// negative control: keywords are case-sensitive
		r.Check(t, "keywords-stay-case-sensitive", hx.N(50, 300), func(rt *rapid.T) {
			kw := rapid.SampledFrom([]string{"true", "false", "null"}).Draw(rt, "kw")
			up := rapid.SampledFrom([]string{strings.ToUpper(kw), strings.ToUpper(kw[:1]) + kw[1:]}).Draw(rt, "up")
			mk := func(w string) string {
				return "on: push\njobs:\n  a:\n    runs-on: ubuntu-latest\n    steps:\n      - run: echo\n        env:\n          V: ${{ " + w + " == github.sha }}\n"
			}
			da, _ := lint(mk(kw))
			db, _ := lint(mk(up))
			r.Eval()
			r.NT(kw, up)
			undefined := false
			for _, d := range db {
				if strings.Contains(d.Msg, "undefined variable \""+up+"\"") {
					undefined = true
				}
			}
			if len(da) != 0 || !undefined {
				c := &c08Case{A: mk(kw), B: mk(up)}
				r.Fail(rt, "C08/keyword-not-case-sensitive", fmt.Sprintf("%s must be a keyword (no diagnostic, got %v) and %s an undefined variable (got %v)", kw, diagStrings(da), up, diagStrings(db)), "C08/none", c)
			}
		})
	})
}
