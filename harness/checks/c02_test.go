package checks

import (
	"bytes"
	"encoding/json"
	"fmt"
	"os"
	"os/exec"
	"path/filepath"
	"runtime"
	"sort"
	"strings"
	"testing"

	al "github.com/rhysd/actionlint"
	"pgregory.net/rapid"
	"verifharness/hx"
	"verifharness/wf"
	"verifharness/world"
	ye "verifharness/yamlemit"
)

// ---- C02: output is a deterministic function of the inputs -----------------------------------------

type c02Case struct {
	Kind    string            `json:"kind"`
	Files   map[string]string `json:"files"`           // relative path -> content; repository root = world root
	Targets []string          `json:"targets"`         // files to lint, in order
	Repo    bool              `json:"repo"`            // world root is a repository
	Repos   []string          `json:"repos,omitempty"` // further repository roots relative to the world root
	Repeats int               `json:"repeats"`
}

// runOnce lints the targets of a materialised world and returns the rendered one-line output plus
// a dump of the error structs.
func c02RunOnce(w *world.World, targets []string) (out string, fatal string, pan any) {
	defer func() {
		if p := recover(); p != nil {
			pan = p
		}
	}()
	var buf bytes.Buffer
	l, err := al.NewLinter(&buf, &al.LinterOptions{Oneline: true, WorkingDir: w.Root, Color: al.ColorOptionKindNever})
	if err != nil {
		return "", "NewLinter: " + err.Error(), nil
	}
	paths := make([]string, len(targets))
	for i, t := range targets {
		paths[i] = filepath.Join(w.Root, t)
	}
	errs, err := l.LintFiles(paths, nil)
	if err != nil {
		return "", err.Error(), nil
	}
	var b strings.Builder
	b.WriteString(buf.String())
	b.WriteString("---structs---\n")
	for _, e := range errs {
		fmt.Fprintf(&b, "%s:%d:%d:%s:%s\n", e.Filepath, e.Line, e.Column, e.Kind, e.Message)
	}
	return b.String(), "", nil
}

func checkDeterminism(c *c02Case) (key, msg string, collide bool) {
	w := world.New()
	defer w.Cleanup()
	if c.Repo {
		w.Repo("")
	}
	for _, rp := range c.Repos {
		w.Repo(rp)
	}
	for p, s := range c.Files {
		w.Write(p, s)
	}
	first := ""
	firstFatal := ""
	reps := c.Repeats
	if reps < 2 {
		reps = 16
	}
	procs := []int{1, 2, 4, 16}
	old := runtime.GOMAXPROCS(0)
	defer runtime.GOMAXPROCS(old)
	for i := 0; i < reps; i++ {
		runtime.GOMAXPROCS(procs[i%len(procs)])
		out, fatal, pan := c02RunOnce(w, c.Targets)
		if pan != nil {
			return "C02/panic", fmt.Sprintf("panic %v\n%s", pan, c02Show(c)), false
		}
		if i == 0 {
			first, firstFatal = out, fatal
			// collision: two diagnostics on one position
			seen := map[string]bool{}
			for _, ln := range strings.Split(out, "\n") {
				parts := strings.SplitN(ln, ":", 4)
				if len(parts) == 4 {
					k := parts[0] + ":" + parts[1] + ":" + parts[2]
					if seen[k] {
						collide = true
					}
					seen[k] = true
				}
			}
			continue
		}
		if out != first || fatal != firstFatal {
			return "C02/output-differs-between-runs:" + c.Kind, fmt.Sprintf("run 1 and run %d (GOMAXPROCS=%d) of the same input differ\n--- run 1\n%s%s\n--- run %d\n%s%s\n--- input\n%s", i+1, procs[i%len(procs)], first, firstFatal, i+1, out, fatal, c02Show(c)), collide
		}
	}
	// the same Linter value used for several runs (library / editor use): every run of the same file
	// gives the same diagnostics ("how many times the run is repeated")
	if len(c.Targets) > 0 {
		var pan any
		var outs []string
		func() {
			defer func() { pan = recover() }()
			l, err := al.NewLinter(&bytes.Buffer{}, &al.LinterOptions{Oneline: true, WorkingDir: w.Root, Color: al.ColorOptionKindNever})
			if err != nil {
				return
			}
			for i := 0; i < 3; i++ {
				var b strings.Builder
				for _, t := range c.Targets {
					errs, err := l.LintFile(filepath.Join(w.Root, t), nil)
					if err != nil {
						fmt.Fprintf(&b, "fatal: %v\n", err)
					}
					for _, e := range errs {
						fmt.Fprintf(&b, "%s:%d:%d:%s:%s\n", e.Filepath, e.Line, e.Column, e.Kind, e.Message)
					}
				}
				outs = append(outs, b.String())
			}
		}()
		if pan != nil {
			return "C02/panic", fmt.Sprintf("panic %v (same Linter, repeated LintFile)\n%s", pan, c02Show(c)), collide
		}
		for i := 1; i < len(outs); i++ {
			if outs[i] != outs[0] {
				// the same diagnostics in another order: the order dependence of fresh runs (same root
				// cause, same key); other diagnostics: state kept by the Linter value
				a, b := strings.Split(outs[0], "\n"), strings.Split(outs[i], "\n")
				sort.Strings(a)
				sort.Strings(b)
				if strings.Join(a, "\n") == strings.Join(b, "\n") {
					return "C02/output-differs-between-runs:" + c.Kind, fmt.Sprintf("LintFile run 1 and run %d with the same Linter print the same diagnostics in another order\n--- run 1\n%s\n--- run %d\n%s\n--- input\n%s", i+1, outs[0], i+1, outs[i], c02Show(c)), collide
				}
				return "C02/output-differs-between-runs-of-one-linter:" + c.Kind, fmt.Sprintf("LintFile run 1 and run %d with the same Linter differ\n--- run 1\n%s\n--- run %d\n%s\n--- input\n%s", i+1, outs[0], i+1, outs[i], c02Show(c)), collide
			}
		}
	}
	// a sample of cases also through the built command as separate processes: exit status and stdout
	if hx.Hash(c02Show(c))%4 == 0 {
		if _, err := os.Stat(actionlintBin); err == nil {
			firstOut, firstExit := "", 0
			for i := 0; i < 4; i++ {
				args := append([]string{"-oneline", "-no-color"}, c.Targets...)
				cmd := exec.Command(actionlintBin, args...)
				cmd.Dir = w.Root
				cmd.Env = append(os.Environ(), fmt.Sprintf("GOMAXPROCS=%d", procs[i%len(procs)]))
				var so, se bytes.Buffer
				cmd.Stdout, cmd.Stderr = &so, &se
				exit := 0
				if err := cmd.Run(); err != nil {
					if ee, ok := err.(*exec.ExitError); ok {
						exit = ee.ExitCode()
					} else {
						return "harness/c02-cannot-run-binary", err.Error(), collide
					}
				}
				out := so.String() + "\n--stderr--\n" + se.String()
				if i == 0 {
					firstOut, firstExit = out, exit
				} else if out != firstOut || exit != firstExit {
					return "C02/output-differs-between-runs:" + c.Kind, fmt.Sprintf("process run 1 and %d of the actionlint command differ (exit %d vs %d)\n--- run 1\n%s\n--- run %d\n%s\n--- input\n%s", i+1, firstExit, exit, firstOut, i+1, out, c02Show(c)), collide
				}
			}
		}
	}
	return "", "", collide
}

func c02Show(c *c02Case) string {
	var b strings.Builder
	var ks []string
	for k := range c.Files {
		ks = append(ks, k)
	}
	sort.Strings(ks)
	for _, k := range ks {
		fmt.Fprintf(&b, "### %s\n%s\n", k, c.Files[k])
	}
	return b.String()
}

func init() {
	hx.RegisterReplayer("C02/world", func(r *hx.Run, data json.RawMessage) {
		var c c02Case
		if err := json.Unmarshal(data, &c); err != nil {
			panic(err)
		}
		c.Repeats = 64
		if k, m, _ := checkDeterminism(&c); k != "" {
			r.Report(k, m, "C02/world", &c)
		}
	})
}

func init() {
	hx.RegisterReplayer("C02/sema", func(r *hx.Run, data json.RawMessage) {
		var c c06Case
		if err := json.Unmarshal(data, &c); err != nil {
			panic(err)
		}
		first := ""
		for i := 0; i < 200; i++ {
			errs, err := semaCheck(c.Env, c.Src)
			if err != nil {
				return
			}
			out := strings.Join(errMsgs(errs), " | ")
			if i == 0 {
				first = out
			} else if out != first {
				r.Report("C02/sema-result-varies-between-runs", fmt.Sprintf("checking %q gives different errors on repetition: %q vs %q", c.Src, first, out), "C02/sema", &c)
				return
			}
		}
	})
}

const wfPath = ".github/workflows/"

func oneFile(kind, src string) *c02Case {
	return &c02Case{Kind: kind, Files: map[string]string{wfPath + "w.yml": src}, Targets: []string{wfPath + "w.yml"}, Repo: true}
}

// actionsWithRequiredInputs lists popular action specs with >= 2 required inputs (from the exported table).
func actionsWithRequiredInputs() []string {
	var out []string
	for spec, meta := range al.PopularActions {
		n := 0
		for _, in := range meta.Inputs {
			if in.Required {
				n++
			}
		}
		if n >= 2 {
			out = append(out, spec)
		}
	}
	sort.Strings(out)
	return out
}

func TestC02(t *testing.T) {
	hx.Main(t, "C02", func(r *hx.Run) {
		R := hx.N(16, 32)
		r.Rule = fmt.Sprintf("collision templates (format() with several unused/missing placeholders; popular action with >=2 required inputs omitted; call of a local reusable workflow omitting several required inputs and secrets; runs-on label sets with one conflicting label; needs graphs with 2-3 disjoint cycles; a broken local action used by 2-4 jobs; unknown inputs/keys listing alternatives), random model workflows with 1-5 seeded errors, the repository's testdata/err files, and multi-file worlds. Each case is linted %d times with fresh linters under GOMAXPROCS 1/2/4/16 (every run re-randomises Go's map iteration); oracle: byte equality of the -oneline output and of the []*Error sequence. Non-trivial = the output has two diagnostics at one position or the case is a multi-candidate template; distinct = hash of the files.", R)
		r.Assumptions = []string{"shellcheck/pyflakes disabled (C20 owns them)", "an order dependence between two candidates survives R runs with probability 2^-(R-1)"}
		twoReq := actionsWithRequiredInputs()
		r.Extra["popular_actions_with_two_required_inputs"] = len(twoReq)
		run := func(rt *rapid.T, c *c02Case, template bool) {
			c.Repeats = R
			k, m, collide := checkDeterminism(c)
			r.Eval()
			if template || collide {
				r.NT(c02Show(c))
			}
			r.Class(c.Kind)
			if collide {
				r.Class("has-two-diagnostics-at-one-position")
			}
			r.Sample(map[string]any{"kind": c.Kind, "files": c.Files})
			if k != "" {
				r.Fail(rt, k, m, "C02/world", c)
			}
		}
		head := "on: push\njobs:\n"
		for tmpl := 0; tmpl <= 8; tmpl++ {
			tmpl := tmpl
			r.Check(t, fmt.Sprintf("template-%d", tmpl), hx.N(32, 800), func(rt *rapid.T) {
				switch tmpl {
				case 0: // format
					n := rapid.IntRange(2, 5).Draw(rt, "nph")
					var phs []string
					for i := 0; i < n; i++ {
						phs = append(phs, fmt.Sprintf("{%d}", rapid.IntRange(0, 6).Draw(rt, "ph")))
					}
					nargs := rapid.IntRange(0, 3).Draw(rt, "nargs")
					args := ""
					for i := 0; i < nargs; i++ {
						args += ", 'a'"
					}
					src := head + "  a:\n    runs-on: ubuntu-latest\n    steps:\n      - run: echo ${{ format('" + strings.Join(phs, " ") + "'" + args + ") }}\n"
					run(rt, oneFile("format-placeholders", src), true)
				case 1: // popular action missing required inputs
					spec := rapid.SampledFrom(twoReq).Draw(rt, "spec")
					src := head + "  a:\n    runs-on: ubuntu-latest\n    steps:\n      - uses: " + spec + "\n"
					if rapid.Bool().Draw(rt, "extra") {
						src += "        with:\n          zz-unknown-1: a\n          zz-unknown-2: b\n"
					}
					run(rt, oneFile("action-missing-required-inputs", src), true)
				case 2: // reusable workflow call missing inputs/secrets
					ni := rapid.IntRange(0, 4).Draw(rt, "ni")
					ns := rapid.IntRange(0, 4).Draw(rt, "ns")
					callee := "on:\n  workflow_call:\n"
					if ni > 0 {
						callee += "    inputs:\n"
						for i := 0; i < ni; i++ {
							callee += fmt.Sprintf("      in%d:\n        type: string\n        required: true\n", i)
						}
					}
					if ns > 0 {
						callee += "    secrets:\n"
						for i := 0; i < ns; i++ {
							callee += fmt.Sprintf("      sec%d:\n        required: true\n", i)
						}
					}
					callee += "jobs:\n  a:\n    runs-on: ubuntu-latest\n    steps:\n      - run: echo\n"
					caller := head + "  call:\n    uses: ./.github/workflows/callee.yml\n"
					if rapid.Bool().Draw(rt, "unknown") {
						caller += "    with:\n      zz1: a\n      zz2: b\n"
						// some declared inputs are given too, with values that have diagnostics of their own
						for i := 0; i < ni; i++ {
							if rapid.Bool().Draw(rt, "givebad") {
								caller += fmt.Sprintf("      in%d: %s\n", i, rapid.SampledFrom([]string{"${{ github.nosuch }}", "${{ 1 +", "ok", "${{ matrix.zz }}", "null"}).Draw(rt, "badval"))
							}
						}
						caller += "    secrets:\n      yy1: a\n      yy2: b\n"
					}
					c := &c02Case{Kind: "workflow-call-missing-inputs-secrets", Repo: true, Files: map[string]string{wfPath + "callee.yml": callee, wfPath + "caller.yml": caller}, Targets: []string{wfPath + "caller.yml"}}
					if rapid.Bool().Draw(rt, "both") {
						c.Targets = []string{wfPath + "caller.yml", wfPath + "callee.yml"}
					}
					run(rt, c, true)
				case 3: // runner labels
					pool := []string{"ubuntu-latest", "ubuntu-22.04", "linux", "self-hosted", "x64", "windows-latest", "windows-2022", "macos-latest", "macos-13", "arm64"}
					n := rapid.IntRange(2, 5).Draw(rt, "nl")
					var ls []string
					for i := 0; i < n; i++ {
						ls = append(ls, rapid.SampledFrom(pool).Draw(rt, "lab"))
					}
					src := head + "  a:\n    runs-on: [" + strings.Join(ls, ", ") + "]\n    steps:\n      - run: echo\n"
					if rapid.Bool().Draw(rt, "viamatrix") {
						// some labels come from a matrix row written before or after runs-on, at a smaller or
						// larger column than the labels of the list
						ls[rapid.IntRange(0, n-1).Draw(rt, "mat")] = "'${{ matrix.os }}'"
						var ms []string
						for i := rapid.IntRange(1, 3).Draw(rt, "nmat"); i > 0; i-- {
							ms = append(ms, rapid.SampledFrom(pool).Draw(rt, "mlab"))
						}
						runsOn := "    runs-on: [" + strings.Join(ls, ", ") + "]\n"
						if rapid.Bool().Draw(rt, "blocklist") {
							runsOn = "    runs-on:\n"
							for _, l := range ls {
								runsOn += "                - " + l + "\n"
							}
						}
						strat := "    strategy:\n      matrix:\n        os: [" + strings.Join(ms, ", ") + "]\n"
						if rapid.Bool().Draw(rt, "stratfirst") {
							src = head + "  a:\n" + strat + runsOn + "    steps:\n      - run: echo\n"
						} else {
							src = head + "  a:\n" + runsOn + strat + "    steps:\n      - run: echo\n"
						}
					}
					run(rt, oneFile("runner-label-conflicts", src), true)
				case 4: // several cycles
					nc := rapid.IntRange(2, 3).Draw(rt, "ncyc")
					type jn struct{ id, needs int }
					var js []jn
					id := 0
					for c := 0; c < nc; c++ {
						l := rapid.IntRange(1, 3).Draw(rt, "len")
						for k := 0; k < l; k++ {
							js = append(js, jn{id + k, id + (k+1)%l})
						}
						id += l
					}
					src := head
					if rapid.IntRange(0, 2).Draw(rt, "flowjobs") == 0 {
						// the jobs as one flow mapping spread over lines with arbitrary indentation (a job on a
						// later line may start at a smaller column than one on an earlier line)
						src = strings.TrimSuffix(head, "jobs:\n") + "jobs: {\n"
						for i, j := range js {
							sep := ","
							if i == len(js)-1 {
								sep = ""
							}
							src += fmt.Sprintf("%sj%d: {needs: [j%d], runs-on: ubuntu-latest, steps: [{run: echo}]}%s\n", strings.Repeat(" ", rapid.IntRange(1, 9).Draw(rt, "flowindent")), j.id, j.needs, sep)
						}
						src += " }\n"
					} else {
						for _, j := range js {
							src += fmt.Sprintf("  j%d:\n    needs: [j%d]\n    runs-on: ubuntu-latest\n    steps:\n      - run: echo\n", j.id, j.needs)
						}
					}
					run(rt, oneFile("several-needs-cycles", src), true)
				case 5: // broken local action used by several jobs
					nj := rapid.IntRange(2, 4).Draw(rt, "nj")
					src := head
					for i := 0; i < nj; i++ {
						src += fmt.Sprintf("  j%d:\n    runs-on: ubuntu-latest\n    steps:\n      - uses: ./act\n", i)
					}
					broken := rapid.SampledFrom([]string{"name: x\nruns: [1,2\n", "name: [\n", "inputs: 1\nruns:\n  using: node20\n  main: index.js\n"}).Draw(rt, "broken")
					c := &c02Case{Kind: "broken-local-action-used-by-several-jobs", Repo: true, Files: map[string]string{wfPath + "w.yml": src, "act/action.yml": broken}, Targets: []string{wfPath + "w.yml"}}
					run(rt, c, true)
				case 6: // undefined names with alternatives + duplicates at one position
					src := head + "  a:\n    runs-on: ubuntu-latest\n    permissions:\n      zz-scope: read\n      yy-scope: write\n    steps:\n      - run: echo ${{ github.zzz }} ${{ runner.yyy }} ${{ unknownfunc() }} ${{ unknownctx.x }}\n        shell: zsh-unknown\n"
					run(rt, oneFile("unknown-names-with-alternatives", src), true)
				case 8: // two entries of one mapping whose diagnostics land on the same position
					// (an expression error behind an escaped line break is reported one line further down,
					// see the open C07 finding; the order of two diagnostics at one position must still
					// not depend on the iteration order of the mapping)
					ind := rapid.SampledFrom([]string{"  ", "    ", "      "}).Draw(rt, "envindent")
					pad := rapid.SampledFrom([]string{" ", " ", "  "}).Draw(rt, "pad")
					entries := []string{ind + "E1: \"${{ 'u\\n }}\"\n", ind + "E2: \"${{ a" + pad + "b }}\"\n", ind + "E3: ok\n"}
					if rapid.Bool().Draw(rt, "swap") {
						entries[0], entries[2] = entries[2], entries[0]
					}
					env := strings.Join(entries, "")
					var src string
					switch len(ind) {
					case 2:
						src = "on: push\nenv:\n" + env + "jobs:\n  a:\n    runs-on: ubuntu-latest\n    steps:\n      - run: echo\n"
					case 4:
						src = head + "  a:\n    runs-on: ubuntu-latest\n    env:\n" + strings.ReplaceAll(env, ind, "      ") + "    steps:\n      - run: echo\n"
					default:
						src = head + "  a:\n    runs-on: ubuntu-latest\n    steps:\n      - uses: owner/unknown-action@v1\n        with:\n" + strings.ReplaceAll(env, ind, "          ")
					}
					run(rt, oneFile("diagnostics-of-two-entries-at-one-position", src), true)
				default: // local action with several missing required inputs
					meta := "name: x\ninputs:\n"
					n := rapid.IntRange(2, 5).Draw(rt, "nin")
					for i := 0; i < n; i++ {
						meta += fmt.Sprintf("  in%d:\n    required: true\n", i)
					}
					meta += "runs:\n  using: node20\n  main: index.js\n"
					src := head + "  a:\n    runs-on: ubuntu-latest\n    steps:\n      - uses: ./act\n"
					if rapid.Bool().Draw(rt, "unk") {
						src += "        with:\n          zz1: a\n          zz2: b\n"
					}
					c := &c02Case{Kind: "local-action-missing-required-inputs", Repo: true, Files: map[string]string{wfPath + "w.yml": src, "act/action.yml": meta, "act/index.js": ""}, Targets: []string{wfPath + "w.yml"}}
					run(rt, c, true)
				}
			})
		}
		// random workflows with seeded errors
		r.Check(t, "random-workflows", hx.N(400, 6000), func(rt *rapid.T) {
			g := &wf.G{T: rt}
			w := g.Workflow()
			leaves := scalarLeaves(w.Root)
			// values: malformed / undefined things, and references to every kind of entity the
			// workflow defines (placed anywhere, so that type construction for each context is
			// exercised from positions where it is and is not complete)
			vals := []string{"${{ github. }}", "${{ unknown.ctx }}", "${{ format('{0}{1}{2}') }}", "zz-invalid", "${{ matrix.zz }} ${{ steps.zz }}", "", "${{ matrix.os }}", "${{ env.ENV_1 }} ${{ vars.X }}", "${{ secrets.nosuch }}"}
			for _, n := range w.DispatchInputs {
				vals = append(vals, "${{ inputs."+n+" }}", "${{ github.event.inputs."+n+" }}")
			}
			for _, n := range w.CallInputs {
				vals = append(vals, "${{ inputs."+n+" }}")
			}
			for _, n := range w.CallSecrets {
				vals = append(vals, "${{ secrets."+n+" }}")
			}
			for _, n := range w.Jobs {
				vals = append(vals, "${{ needs."+n+".result }}", "${{ jobs."+n+".outputs.x }}")
			}
			for _, n := range w.StepIDs {
				vals = append(vals, "${{ steps."+n+".outcome }}", "${{ steps."+n+".outputs.x }}")
			}
			// object filters over contexts whose members have different shapes
			vals = append(vals, "${{ needs.*.outputs.x }}", "${{ needs.*.result }}", "${{ steps.*.outputs.y }}", "${{ steps.*.outcome }}", "${{ jobs.*.outputs.z }}", "${{ matrix.*.k }}", "${{ inputs.*.x }}", "${{ github.*.sha }}", "${{ toJSON(needs.*.outputs) }}")
			for _, j := range w.Jobs {
				for _, o := range w.JobOutputs[j] {
					vals = append(vals, "${{ needs.*.outputs."+o+" }}", "${{ jobs.*.outputs."+o+" }}")
				}
			}
			ne := rapid.IntRange(1, 6).Draw(rt, "nerr")
			for i := 0; i < ne && len(leaves) > 0; i++ {
				lf := leaves[rapid.IntRange(0, len(leaves)-1).Draw(rt, "leaf")]
				lf.Raw = ""
				lf.Val = rapid.SampledFrom(vals).Draw(rt, "bad")
			}
			src := ye.Emit(w.Root, g.Layout())
			run(rt, oneFile("random-workflow-with-seeded-errors", src), false)
		})
		// repository test data
		errFiles, _ := filepath.Glob("/repo/testdata/err/*.yaml")
		sort.Strings(errFiles)
		r.Extra["repo_testdata_err_files"] = len(errFiles)
		if len(errFiles) > 0 {
			r.Check(t, "testdata-err", hx.N(60, len(errFiles)), func(rt *rapid.T) {
				f := rapid.SampledFrom(errFiles).Draw(rt, "file")
				b, err := os.ReadFile(f)
				if err != nil {
					return
				}
				run(rt, oneFile("testdata-err", string(b)), false)
			})
		}
		// multi-file worlds
		r.Check(t, "multi-file", hx.N(40, 800), func(rt *rapid.T) {
			n := rapid.IntRange(3, 12).Draw(rt, "nfiles")
			c := &c02Case{Kind: "multi-file", Repo: true, Files: map[string]string{}}
			for i := 0; i < n; i++ {
				g := &wf.G{T: rt}
				w := g.Workflow()
				leaves := scalarLeaves(w.Root)
				for k := 0; k < 2 && len(leaves) > 0; k++ {
					lf := leaves[rapid.IntRange(0, len(leaves)-1).Draw(rt, "leaf")]
					lf.Raw = ""
					lf.Val = rapid.SampledFrom([]string{"${{ github. }}", "${{ unknown.ctx }}", "zz-invalid"}).Draw(rt, "bad")
				}
				name := fmt.Sprintf("%sw%02d.yml", wfPath, i)
				c.Files[name] = ye.Emit(w.Root, g.Layout())
				c.Targets = append(c.Targets, name)
			}
			run(rt, c, true)
		})
		// the semantic checker as a library: same typing environment + expression => same errors
		r.Check(t, "sema-api-repeat", hx.N(6000, 100000), func(rt *rapid.T) {
			env := &tenv{Ctx: map[string]*tyd{}}
			for i := 0; i < rapid.IntRange(1, 3).Draw(rt, "nctx"); i++ {
				name := rapid.SampledFrom(c06Contexts).Draw(rt, "ctxname")
				if _, ok := env.Ctx[name]; ok {
					continue
				}
				env.Ctx[name] = genObj(rt, 3, 1)
				env.Names = append(env.Names, name)
			}
			sort.Strings(env.Names)
			g := &c06gen{t: rt, env: env, visited: map[*tyd]bool{}}
			src := g.expr(3)
			if rapid.IntRange(0, 2).Draw(rt, "mergecase") == 0 {
				// merging a map-typed object with an object that has several differently typed members
				scalar := func() *tyd {
					return &tyd{Kind: rapid.SampledFrom([]string{"str", "num", "bool", "null", "any"}).Draw(rt, "mscalar")}
				}
				q := &tyd{Kind: "obj", Props: map[string]*tyd{}, Open: rapid.IntRange(0, 3).Draw(rt, "qopen") == 0}
				for i := 0; i < rapid.IntRange(2, 4).Draw(rt, "qn"); i++ {
					n := string(rune('a' + i))
					q.Props[n] = scalar()
					q.Order = append(q.Order, n)
				}
				pm := &tyd{Kind: "map", Elem: scalar()}
				root := &tyd{Kind: "obj", Props: map[string]*tyd{"p": {Kind: "obj", Props: map[string]*tyd{"m": pm}, Order: []string{"m"}}, "q": {Kind: "obj", Props: map[string]*tyd{"m": q}, Order: []string{"m"}}}, Order: []string{"p", "q"}}
				env = &tenv{Ctx: map[string]*tyd{"matrix": root}, Names: []string{"matrix"}}
				op := rapid.SampledFrom([]string{"&&", "||"}).Draw(rt, "mop")
				a, b := "p", "q"
				if rapid.Bool().Draw(rt, "mswap") {
					a, b = b, a
				}
				src = "(matrix." + a + " " + op + " matrix." + b + ").m" + rapid.SampledFrom([]string{".zz.y", "['zz']['y']", ".zz[0]", ".zz == 1", ".a.x"}).Draw(rt, "msuffix")
			}
			if rapid.IntRange(0, 5).Draw(rt, "jsoncase") == 0 {
				// object literals whose keys differ only in letter case, with values of different kinds
				var kv []string
				for _, k := range rapid.Permutation([]string{"a", "A", "b", "B", "c"}).Draw(rt, "jkeys")[:rapid.IntRange(2, 4).Draw(rt, "njkeys")] {
					kv = append(kv, fmt.Sprintf("%q: %s", k, rapid.SampledFrom([]string{"1", `"s"`, `{"x": 1}`, `{"x": "s", "y": 2}`, "[1]", "null", "true"}).Draw(rt, "jval")))
				}
				src = "fromJSON('{" + strings.Join(kv, ", ") + "}')" + rapid.SampledFrom([]string{".a.x", ".A.x", ".b[0]", "['a'].x", ".B.y", ".a", ".b == 1", ".c.x"}).Draw(rt, "jsuffix")
				r.Class("sema-api-repeat/json-keys-differing-in-case")
			}
			first := ""
			r.Eval()
			r.Class("sema-api-repeat")
			for i := 0; i < 24; i++ {
				errs, err := semaCheck(env, src)
				if err != nil {
					return
				}
				out := strings.Join(errMsgs(errs), " | ")
				if i == 0 {
					first = out
					if out != "" {
						r.NT(src, envString(env))
					}
				} else if out != first {
					c := &c06Case{Env: env, Src: src, Loose: env, What: "repeat"}
					r.Fail(rt, "C02/sema-result-varies-between-runs", fmt.Sprintf("checking %q under %s gives different errors on repetition:\n run 1: %s\n run %d: %s", src, envString(env), first, i+1, out), "C02/sema", c)
				}
			}
		})
		// several repositories (own configuration, local actions, reusable workflows) in one invocation
		r.Check(t, "multi-repository", hx.N(60, 1000), func(rt *rapid.T) {
			w10, _ := genC10World(rt)
			c := &c02Case{Kind: "multi-repository", Files: w10.Files, Repos: w10.Repos, Targets: w10.Args}
			run(rt, c, true)
		})
		// several files of one run sharing a broken local action / reusable workflow ("reported once per run")
		r.Check(t, "multi-file-shared-broken-callee", hx.N(24, 600), func(rt *rapid.T) {
			n := rapid.IntRange(2, 5).Draw(rt, "nfiles")
			c := &c02Case{Kind: "multi-file-shared-broken-callee", Repo: true, Files: map[string]string{}}
			action := rapid.Bool().Draw(rt, "action")
			for i := 0; i < n; i++ {
				name := fmt.Sprintf("%sw%02d.yml", wfPath, i)
				if action {
					c.Files[name] = "on: push\njobs:\n  a:\n    runs-on: ubuntu-latest\n    steps:\n      - uses: ./act\n"
				} else {
					c.Files[name] = "on: push\njobs:\n  a:\n    uses: ./.github/workflows/broken.yml\n"
				}
				c.Targets = append(c.Targets, name)
			}
			if action {
				c.Files["act/action.yml"] = rapid.SampledFrom([]string{"name: x\nruns: [1,2\n", "name: [\n"}).Draw(rt, "broken")
			} else {
				c.Files[wfPath+"broken.yml"] = rapid.SampledFrom([]string{"on: [\n", "on:\n  workflow_call:\n    inputs: [1,\n"}).Draw(rt, "brokenwf")
			}
			run(rt, c, true)
		})
	})
}
