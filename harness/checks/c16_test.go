package checks

import (
	"bytes"
	"encoding/json"
	"fmt"
	"os"
	"path/filepath"
	"regexp"
	"strings"
	"testing"
	"unicode/utf8"

	"github.com/fatih/color"
	"github.com/mattn/go-runewidth"
	al "github.com/rhysd/actionlint"
	"pgregory.net/rapid"
	"verifharness/hx"
	"verifharness/wf"
	ye "verifharness/yamlemit"
)

// ---- C16: every output format renders the diagnostics faithfully, one per line ---------------------

type c16Render struct {
	Line   int    `json:"line"`
	Col    int    `json:"col"`
	Msg    string `json:"msg"`
	Kind   string `json:"kind"`
	File   string `json:"file"`
	SrcB64 []byte `json:"src"` // encoded as base64 by encoding/json
}

// sourceLine returns the referenced line (without line terminator) the way a reader of the file sees it.
func sourceLine(src []byte, line int) (string, bool) {
	if line < 1 || len(src) == 0 {
		return "", false
	}
	rest := src
	for l := 1; ; l++ {
		i := bytes.IndexByte(rest, '\n')
		var cur []byte
		if i < 0 {
			cur = rest
		} else {
			cur = rest[:i]
		}
		if l == line {
			if i < 0 && len(cur) == 0 {
				return "", false // no such line: the file ended with the previous newline
			}
			return strings.TrimSuffix(string(cur), "\r"), true
		}
		if i < 0 {
			return "", false
		}
		rest = rest[i+1:]
	}
}

func checkRenderer(c *c16Render) (key, msg string, nontrivial bool) {
	e := &al.Error{Message: c.Msg, Filepath: c.File, Line: c.Line, Column: c.Col, Kind: c.Kind}
	color.NoColor = true // global switch of the colour library (NewLinter sets it from its options)
	var buf bytes.Buffer
	var f *al.ErrorTemplateFields
	var pan any
	func() {
		defer func() { pan = recover() }()
		e.PrettyPrint(&buf, c.SrcB64)
		f = e.GetTemplateFields(c.SrcB64)
	}()
	if pan != nil {
		return "C16/renderer-panic", fmt.Sprintf("rendering line=%d col=%d panics: %v\nsource %q", c.Line, c.Col, pan, c.SrcB64), true
	}
	out := buf.String()
	lines := strings.Split(strings.TrimSuffix(out, "\n"), "\n")
	header := fmt.Sprintf("%s:%d:%d: %s [%s]", c.File, c.Line, c.Col, c.Msg, c.Kind)
	if !strings.HasPrefix(out, header+"\n") {
		return "C16/header-line", fmt.Sprintf("first line is not %q:\n%q", header, out), false
	}
	if f.Message != c.Msg || f.Line != c.Line || f.Column != c.Col || f.Kind != c.Kind || f.Filepath != c.File {
		return "C16/template-fields", fmt.Sprintf("template fields %+v differ from the diagnostic", f), false
	}
	want, ok := sourceLine(c.SrcB64, c.Line)
	if len(c.SrcB64) > 64<<10 || strings.Contains(c.Msg, "\n") {
		return "", "", false
	}
	extra := lines[1:]
	if !ok {
		if len(extra) != 0 || f.Snippet != "" {
			return "C16/snippet-for-nonexistent-line", fmt.Sprintf("line %d does not exist but output has a snippet:\n%q\nsource %q", c.Line, out, c.SrcB64), true
		}
		return "", "", false
	}
	if len(extra) == 0 {
		// no snippet is allowed only when the column lies beyond the line
		if c.Col >= 1 && c.Col-1 <= len(want) && len(want) < 60000 {
			return "C16/snippet-missing", fmt.Sprintf("line %d exists and column %d is inside it (%q) but no snippet was printed:\n%q", c.Line, c.Col, want, out), true
		}
		return "", "", false
	}
	if len(extra) != 3 {
		return "C16/snippet-shape", fmt.Sprintf("expected 3 snippet lines, got %d:\n%q", len(extra), out), true
	}
	gutter := fmt.Sprintf("%d | ", c.Line)
	if extra[1] != gutter+want {
		return "C16/snippet-is-not-the-source-line", fmt.Sprintf("snippet line %q, source line %d is %q", extra[1], c.Line, want), true
	}
	if !strings.HasPrefix(f.Snippet, want) {
		return "C16/snippet-is-not-the-source-line", fmt.Sprintf("Snippet field %q, source line %q", f.Snippet, want), true
	}
	// caret under the reported (byte) column
	ind := extra[2]
	pre := strings.Repeat(" ", len(gutter)-2) + "| "
	if !strings.HasPrefix(ind, pre) {
		return "C16/indicator-shape", fmt.Sprintf("indicator line %q", ind), true
	}
	ind = ind[len(pre):]
	if c.Col >= 1 && c.Col-1 <= len(want) && utf8.ValidString(want[:c.Col-1]) {
		cells := runewidth.StringWidth(want[:c.Col-1])
		if isPrintableASCII(want[:c.Col-1]) {
			cells = c.Col - 1 // independent of the width table
		}
		caret := strings.Index(ind, "^")
		if caret != cells {
			return "C16/caret-not-under-column", fmt.Sprintf("column %d of %q is terminal cell %d but the caret is at cell %d (indicator %q)", c.Col, want, cells, caret, ind), true
		}
		if fs := strings.SplitN(f.Snippet, "\n", 2); len(fs) == 2 && strings.Index(fs[1], "^") != cells {
			return "C16/caret-not-under-column", fmt.Sprintf("Snippet field: column %d of %q is cell %d but caret at %d", c.Col, want, cells, strings.Index(fs[1], "^")), true
		}
		return "", "", true
	}
	return "", "", true
}

// ---- end to end -------------------------------------------------------------------------------------

type c16Case struct {
	YAML string `json:"yaml"`
}

var matcherRE = func() *regexp.Regexp {
	b, err := os.ReadFile("/repo/.github/actionlint-matcher.json")
	if err != nil {
		return nil
	}
	var m struct {
		ProblemMatcher []struct {
			Pattern []struct {
				Regexp string `json:"regexp"`
			} `json:"pattern"`
		} `json:"problemMatcher"`
	}
	if json.Unmarshal(b, &m) != nil || len(m.ProblemMatcher) == 0 {
		return nil
	}
	re, err := regexp.Compile(m.ProblemMatcher[0].Pattern[0].Regexp)
	if err != nil {
		return nil
	}
	return re
}()

func lintWith(src string, opts al.LinterOptions) (string, []*al.Error, error, any) {
	var buf bytes.Buffer
	var errs []*al.Error
	var err error
	var pan any
	func() {
		defer func() { pan = recover() }()
		l, e := al.NewLinter(&buf, &opts)
		if e != nil {
			err = e
			return
		}
		errs, err = l.Lint("dir/w.yml", []byte(src), nil)
	}()
	return buf.String(), errs, err, pan
}

func checkOutputModes(c *c16Case) (key, msg string, echoes int) {
	_, ref, err, pan := lintWith(c.YAML, al.LinterOptions{Oneline: true, Color: al.ColorOptionKindNever})
	if pan != nil || err != nil {
		return "C16/panic-or-fatal", fmt.Sprintf("%v %v\n%s", pan, err, c.YAML), 0
	}
	for _, e := range ref {
		if strings.ContainsAny(e.Message, "\n\r") {
			key := "C16/message-contains-line-break:" + messageTemplate(e.Message)
			return key, fmt.Sprintf("message of %d:%d [%s] contains a line break: %q\n%s", e.Line, e.Column, e.Kind, e.Message, c.YAML), 0
		}
		for _, r := range e.Message {
			if r > 0x7e || r < 0x20 || r == '%' || r == '[' || r == ']' {
				echoes++
				break
			}
		}
	}
	leakKey, leakMsg := "", ""
	for _, mode := range []struct {
		name string
		opts al.LinterOptions
	}{
		{"oneline", al.LinterOptions{Oneline: true, Color: al.ColorOptionKindNever}},
		{"oneline-color", al.LinterOptions{Oneline: true, Color: al.ColorOptionKindAlways}},
		{"default", al.LinterOptions{Color: al.ColorOptionKindNever}},
		{"default-color", al.LinterOptions{Color: al.ColorOptionKindAlways}},
		{"json", al.LinterOptions{Format: "{{json .}}"}},
		{"jsonl", al.LinterOptions{Format: `{{range $err := .}}{{json $err}}\n{{end}}`}},
		{"fields", al.LinterOptions{Format: `{{range $e := .}}{{json $e.Filepath}} {{$e.Line}} {{$e.Column}} {{json $e.Kind}} {{json $e.Message}}\n{{end}}`}},
	} {
		out, errs, err, pan := lintWith(c.YAML, mode.opts)
		if pan != nil || err != nil {
			return "C16/panic-or-fatal:" + mode.name, fmt.Sprintf("%v %v\n%s", pan, err, c.YAML), echoes
		}
		if len(errs) != len(ref) {
			return "C16/diagnostic-count-differs-between-modes", fmt.Sprintf("%s: %d vs %d", mode.name, len(errs), len(ref)), echoes
		}
		switch mode.name {
		case "oneline", "oneline-color":
			lines := strings.Split(strings.TrimSuffix(out, "\n"), "\n")
			if out == "" {
				lines = nil
			}
			colourLeak := false
			for i, ln := range lines {
				if i > 0 && strings.HasPrefix(ln, "\x1b[0m") {
					colourLeak = true
				}
			}
			if colourLeak {
				// the reset sequence of line i is written after its newline: remembered and reported
				// at the end so that the remaining modes are still checked
				leakKey, leakMsg = "C16/colour-reset-sequence-starts-the-next-line", fmt.Sprintf("%s: output %q", mode.name, out)
				continue
			}
			if len(lines) != len(ref) {
				k := "C16/oneline-not-one-line-per-diagnostic"
				if len(lines) == len(ref)+1 && strings.HasPrefix(lines[len(lines)-1], "\x1b[") {
					k = "C16/colour-reset-sequence-starts-the-next-line"
				}
				return k, fmt.Sprintf("%s: %d diagnostics but %d output lines\n%q", mode.name, len(ref), len(lines), out), echoes
			}
			if matcherRE == nil {
				return "harness/c16-no-matcher", "cannot load /repo/.github/actionlint-matcher.json", echoes
			}
			for i, ln := range lines {
				e := errs[i] // the diagnostics returned by this very run (their order among equal positions is C02's matter)
				m := matcherRE.FindStringSubmatch(ln)
				if m == nil {
					return "C16/oneline-line-not-matched-by-problem-matcher", fmt.Sprintf("%s: line %q", mode.name, ln), echoes
				}
				if m[1] != e.Filepath || m[2] != fmt.Sprint(e.Line) || m[3] != fmt.Sprint(e.Column) || m[4] != e.Message || m[5] != e.Kind {
					key := "C16/problem-matcher-parses-other-fields"
					if strings.Contains(e.Message, " [") && strings.HasPrefix(e.Message, m[4]) {
						// remembered and reported at the end so that the other modes are still checked
						if leakKey == "" {
							leakKey, leakMsg = "C16/matcher-splits-message-at-space-bracket", fmt.Sprintf("%s: line %q parsed as message=%q kind=%q; diagnostic message is %q [%s]", mode.name, ln, m[4], m[5], e.Message, e.Kind)
						}
						continue
					}
					return key, fmt.Sprintf("%s: line %q parsed as file=%q line=%s col=%s message=%q kind=%q; diagnostic is %s:%d:%d %q [%s]", mode.name, ln, m[1], m[2], m[3], m[4], m[5], e.Filepath, e.Line, e.Column, e.Message, e.Kind), echoes
				}
			}
		case "default":
			// reference rendering
			var want strings.Builder
			for _, e := range errs {
				fmt.Fprintf(&want, "%s:%d:%d: %s [%s]\n", e.Filepath, e.Line, e.Column, e.Message, e.Kind)
				if l, ok := sourceLine([]byte(c.YAML), e.Line); ok && e.Column >= 1 && e.Column-1 <= len(l) {
					g := fmt.Sprintf("%d | ", e.Line)
					ind := strings.Repeat(" ", len(g)-2)
					// the indicator itself is checked by the renderer property; compare header+line only
					fmt.Fprintf(&want, "%s|\n%s%s\n", ind, g, l)
					want.WriteString("<indicator>\n")
				}
			}
			got := regexp.MustCompile(`(?m)^ +\| [ ]*\^~*$`).ReplaceAllString(out, "<indicator>")
			if got != want.String() {
				return "C16/default-mode-rendering", fmt.Sprintf("default mode output differs from the reference rendering\n--- got\n%s\n--- want\n%s", got, want.String()), echoes
			}
		case "json", "jsonl", "fields":
			var fs []al.ErrorTemplateFields
			switch mode.name {
			case "json":
				if err := json.Unmarshal([]byte(out), &fs); err != nil {
					return "C16/json-output-invalid", fmt.Sprintf("%v\n%q", err, out), echoes
				}
			default:
				// a stream of JSON values (the json template function ends each value with a line break)
				dec := json.NewDecoder(strings.NewReader(out))
				for dec.More() {
					var f al.ErrorTemplateFields
					dsts := []any{&f}
					if mode.name == "fields" {
						dsts = []any{&f.Filepath, &f.Line, &f.Column, &f.Kind, &f.Message}
					}
					for _, dst := range dsts {
						if err := dec.Decode(dst); err != nil {
							return "C16/json-output-invalid(" + mode.name + ")", fmt.Sprintf("%v\n%q", err, out), echoes
						}
					}
					fs = append(fs, f)
				}
			}
			if len(fs) != len(ref) {
				return "C16/json-count", fmt.Sprintf("%d vs %d", len(fs), len(ref)), echoes
			}
			for i, f := range fs {
				e := errs[i]
				if f.Message != strings.ToValidUTF8(e.Message, "\uFFFD") || f.Line != e.Line || f.Column != e.Column || f.Kind != e.Kind || f.Filepath != e.Filepath {
					return "C16/json-does-not-round-trip", fmt.Sprintf("%+v vs %s:%d:%d %q [%s]", f, e.Filepath, e.Line, e.Column, e.Message, e.Kind), echoes
				}
			}
		}
	}
	return leakKey, leakMsg, echoes
}

func init() {
	hx.RegisterReplayer("C16/render", func(r *hx.Run, data json.RawMessage) {
		var c c16Render
		if err := json.Unmarshal(data, &c); err != nil {
			panic(err)
		}
		if k, m, _ := checkRenderer(&c); k != "" {
			r.Report(k, m, "C16/render", &c)
		}
	})
	hx.RegisterReplayer("C16/multi", func(r *hx.Run, data json.RawMessage) {
		var c c16Multi
		if err := json.Unmarshal(data, &c); err != nil {
			panic(err)
		}
		if k, m := checkMultiFileOutput(&c); k != "" {
			r.Report(k, m, "C16/multi", &c)
		}
	})
	hx.RegisterReplayer("C16/modes", func(r *hx.Run, data json.RawMessage) {
		var c c16Case
		if err := json.Unmarshal(data, &c); err != nil {
			panic(err)
		}
		if k, m, _ := checkOutputModes(&c); k != "" {
			r.Report(k, m, "C16/modes", &c)
		}
	})
}

var c16Hostile = []string{"a\nb", "a\rb", "tab\there", "\x1b[31mred", "\x00", "\x07bell", "\u0085nel", "\u2028ls", "\u2029ps", "日本語", "e\u0301", "\u202eRTL", "\"dq\"", "'sq'", "100%", "%!s(int=1)", "%d %s %v", "x [y]", "]", "[", "a [b] c [d]", ": 1:1: ", "foo: bar", strings.Repeat("long", 30), "\ufeffbom", "emoji😀", "a\\nb", "{", "}", "${{", "}}", "*", "&a", "#c", " lead", "trail ", "\xff\xfe", "${{ fromJSON('{\"a\\nb\":1}').zz }}", "${{ fromJSON('{\"k\\r\\nl\": {\"c\\u2028d\": 1}, \"t\\tu\": 2}').x }}", "${{ fromJSON('{\"v\\u000bw\": 1, \"f\\ff\": 2, \"n\\u0085e\": 3}').y }}", "${{ github.ref =\n'x' }}", "${{ 1.\n }}", "${{ a &\n& b }}", "${{ 0x\n1 }}", "${{ github.sha |\n| 'y' }}", "${{ 'unterminated\n }}", "${{ a }\n} ${{ b }}", "${{ 1e\n3 }}", "x ${{ !\n= }}", "テスト用のワークフローです ${{ github.evnt }}", "日本語日本語日本語日本語 ${{ github. }}", "ééééééééééééé ${{ zzz }} x", "😀😀😀😀😀😀 ${{ format('{0}') }}", "100% ${{ zzz }}", "@foo\nbar", "@every 1h\nx", "TZ=a\nb 0 0 * * *", "0 0 * * *\n", "*/x\n * * * *", "a\nb/c@v1", "./a\nb", "docker://a\nb"}

func TestC16(t *testing.T) {
	hx.Main(t, "C16", func(r *hx.Run) {
		r.Rule = "(a) renderer in isolation: arbitrary (line, column) in [-3, 2*len] and arbitrary source bytes (empty, no trailing newline, CRLF, tabs, wide/combining characters, invalid UTF-8, lines of 4095 / 4096 / 4097 / 8500 / 20000 / 70000 bytes before or at the referenced line) through Error.PrettyPrint and GetTemplateFields; never panics, header line exact, snippet = the referenced source line, caret at the terminal cell of the reported column, nothing for a non-existent line. (b) end to end: generated workflows in which 1-6 keys/values are replaced by hostile strings (line breaks, controls, ESC, NEL/LS/PS, wide/RTL, quotes, %, %!s(, ' [x]', ']', ': 1:1: ', invalid UTF-8) so that they are echoed in messages; rendered in -oneline (with/without colour), default (with/without colour), -format '{{json .}}', a JSON-Lines template and a field-by-field template; one output line per diagnostic which the shipped problem-matcher regexp parses back to the same fields, default mode equals a reference rendering, JSON round-trips, no message contains a line break; one quarter of the workflows is also linted as one of 2-3 files of a single invocation (argument order unlike the lexical order): the printed records are the returned diagnostics in the returned order. Non-trivial: (a) existing line with column inside it; (b) >= 1 message echoing a hostile character; distinct = input hash."
		r.Assumptions = []string{"terminal cell width of a prefix is computed with go-runewidth (the de-facto standard East-Asian-width table); reported columns are byte columns into the source line", "matcher: /repo/.github/actionlint-matcher.json as shipped"}
		lineGen := rapid.OneOf(
			rapid.SampledFrom([]string{"", "on: push", "  key: value", "\tkey:\tvalue", "name: 日本語のジョブ ${{ x }}", "e\u0301e\u0301 x", "😀 emoji: ${{ y }}", "    - run: echo 'hi'", "a\rb", "\xff\xfe bad utf8", strings.Repeat("x", 70000), " ", "\u202eabc", strings.Repeat("k", 4095), "v: " + strings.Repeat("b64", 1366), strings.Repeat("z", 4097), strings.Repeat("long ", 1700), strings.Repeat("w", 20000)}),
			rapid.StringN(0, 40, -1),
			rapid.StringOfN(rapid.RuneFrom([]rune{'a', ' ', '\t', '日', '本', '\u0301', '😀', ':', '$', '{', '}'}), 0, 30, -1),
		)
		r.Check(t, "renderer", hx.N(20000, 600000), func(rt *rapid.T) {
			n := rapid.IntRange(0, 5).Draw(rt, "nlines")
			var src []byte
			var ls []string
			term := rapid.SampledFrom([]string{"\n", "\r\n"}).Draw(rt, "term")
			for i := 0; i < n; i++ {
				l := lineGen.Draw(rt, "line")
				l = strings.ReplaceAll(strings.ReplaceAll(l, "\n", " "), "\r", " ")
				ls = append(ls, l)
				src = append(src, l...)
				if i < n-1 || rapid.Bool().Draw(rt, "trailing-newline") {
					src = append(src, term...)
				}
			}
			line := rapid.IntRange(-3, 2*n+1).Draw(rt, "lineno")
			maxc := 10
			if line >= 1 && line <= n {
				maxc = 2*len(ls[line-1]) + 2
			}
			col := rapid.IntRange(-3, maxc).Draw(rt, "col")
			if line >= 1 && line <= n && rapid.Bool().Draw(rt, "runeboundary") && len(ls[line-1]) > 0 {
				// choose a column at a character boundary
				idx := []int{}
				for i := range ls[line-1] {
					idx = append(idx, i)
				}
				col = idx[rapid.IntRange(0, len(idx)-1).Draw(rt, "ci")] + 1
			}
			c := &c16Render{Line: line, Col: col, Msg: rapid.SampledFrom([]string{"message", "with [brackets]", "100%", "日本語"}).Draw(rt, "msg"), Kind: "rule-name", File: rapid.SampledFrom([]string{"a.yml", "dir/b c.yaml", "<stdin>", ""}).Draw(rt, "file"), SrcB64: src}
			k, m, nt := checkRenderer(c)
			r.Eval()
			if nt {
				r.NT(string(src), fmt.Sprint(line, col))
				if line >= 1 && line <= n && col >= 1 && col-1 <= len(ls[line-1]) && !isASCII(ls[line-1][:col-1]) {
					r.Class("renderer/non-ascii-before-column")
				} else {
					r.Class("renderer/snippet-shown-or-line-exists")
				}
			} else {
				r.Class("renderer/no-snippet-expected")
			}
			if k != "" {
				r.Fail(rt, k, m, "C16/render", c)
			}
		})
		r.Check(t, "output-modes", hx.N(1200, 30000), func(rt *rapid.T) {
			g := &wf.G{T: rt, Rare: rapid.Bool().Draw(rt, "rare")}
			w := g.Workflow()
			type slot struct {
				parent *ye.Node
				idx    int
				isKey  bool
			}
			var slots []slot
			w.Root.Walk(func(nd, p *ye.Node, idx int, isKey bool) {
				if p != nil && nd.Kind == ye.Scalar {
					slots = append(slots, slot{p, idx, isKey})
				}
			})
			nh := rapid.IntRange(1, 6).Draw(rt, "nh")
			for i := 0; i < nh; i++ {
				s := slots[rapid.IntRange(0, len(slots)-1).Draw(rt, "slot")]
				if rapid.IntRange(0, 7).Draw(rt, "prefercron") == 0 {
					for _, c := range slots {
						if !c.isKey && strings.HasSuffix(c.parent.Vals[c.idx].Path, ".cron") {
							s = c
						}
					}
				}
				h := rapid.SampledFrom(c16Hostile).Draw(rt, "h")
				if rapid.IntRange(0, 7).Draw(rt, "preferuses") == 0 {
					// a Docker action whose URI part does not parse and whose tag carries hostile characters
					for _, c := range slots {
						if !c.isKey && strings.HasSuffix(c.parent.Vals[c.idx].Path, ".steps.uses") {
							s = c
						}
					}
					if !s.isKey && strings.HasSuffix(s.parent.Vals[s.idx].Path, ".steps.uses") {
						h = "docker://" + rapid.SampledFrom([]string{"a\x01b", "%zz", "[x", "a b\x7f", "ok.example/img"}).Draw(rt, "duri") + ":" +
							rapid.SampledFrom([]string{"t\nx", "t\rx", "v1 [x]", "", "t\r\n", "\x1b[31m", "1.0"}).Draw(rt, "dtag")
					}
				}
				if !s.isKey && strings.HasSuffix(s.parent.Vals[s.idx].Path, ".cron") && rapid.Bool().Draw(rt, "cronish") {
					// every kind of cron error (descriptor, time zone, field count, field syntax) with every kind of white space / line break echoed from the value
					h = rapid.SampledFrom([]string{"@foo", "@every 1h", "@daily", "TZ=a", "CRON_TZ=Asia", "TZ=", "0 0 * * *", "*/x", "0 0", ""}).Draw(rt, "hc") +
						rapid.SampledFrom([]string{"\n", "\r", "\r\n", "\n\r", "\t", "\v", "\f", "\u0085", "\u2028", " \r ", "\r\r"}).Draw(rt, "hsep") +
						rapid.SampledFrom([]string{"bar", "b 0 0 * * *", "* * *", "", " * * * *", "x\ry"}).Draw(rt, "htail")
				}
				form := rapid.IntRange(0, 3).Draw(rt, "form")
				v := h
				switch form {
				case 1:
					v = "${{ " + strings.NewReplacer("\n", " ", "\r", " ").Replace(h) + " }}"
				case 2:
					v = "x" + h
				}
				n := ye.Q(v, ye.Double)
				if s.isKey {
					s.parent.Keys[s.idx] = n
				} else {
					n.Info, n.Path = s.parent.Vals[s.idx].Info, s.parent.Vals[s.idx].Path
					s.parent.Vals[s.idx] = n
				}
			}
			src := ye.Emit(w.Root, g.Layout())
			c := &c16Case{YAML: src}
			k, m, echoes := checkOutputModes(c)
			r.Eval()
			if echoes > 0 {
				r.NT(src)
				r.Class("modes/messages-echo-hostile-characters")
			} else {
				r.Class("modes/no-echo")
			}
			r.Sample(src)
			if k != "" {
				r.Fail(rt, k, m, "C16/modes", c)
			}
			// the same workflow as one of several files of one invocation (argument order is not the
			// lexical order of the names): what is printed is what is returned, in the same order
			if rapid.IntRange(0, 3).Draw(rt, "multifile") == 0 {
				mc := &c16Multi{Names: rapid.SampledFrom([][]string{{"b.yml", "a.yml"}, {"z.yml", "m.yml", "a.yml"}, {"sub/x.yml", "a.yml", "sub/b.yml"}, {"a.yml", "b.yml"}}).Draw(rt, "names")}
				for i := range mc.Names {
					if i == 0 {
						mc.Sources = append(mc.Sources, src)
					} else {
						mc.Sources = append(mc.Sources, rapid.SampledFrom([]string{"on: push\njobs:\n  a:\n    runs-on: zz-unknown\n    steps:\n      - run: echo ${{ github.nosuch }}\n", "on: zz\njobs:\n", "on: push\njobs:\n  a:\n    runs-on: ubuntu-latest\n    steps:\n      - run: echo\n", src}).Draw(rt, "othersrc"))
					}
				}
				r.Eval()
				r.Class("modes/several-files-in-one-invocation")
				if k, m := checkMultiFileOutput(mc); k != "" {
					r.Fail(rt, k, m, "C16/multi", mc)
				}
			}
		})
	})
}

type c16Multi struct {
	Names   []string `json:"names"`
	Sources []string `json:"sources"`
}

// checkMultiFileOutput: LintFiles over several files; the header lines (oneline) and the JSON records
// are the returned diagnostics, in the returned order.
func checkMultiFileOutput(c *c16Multi) (key, msg string) {
	dir, err := os.MkdirTemp("", "c16multi")
	if err != nil {
		return "harness/c16-tempdir", err.Error()
	}
	defer os.RemoveAll(dir)
	var paths []string
	for i, n := range c.Names {
		p := filepath.Join(dir, n)
		os.MkdirAll(filepath.Dir(p), 0o755)
		if err := os.WriteFile(p, []byte(c.Sources[i]), 0o644); err != nil {
			return "harness/c16-tempdir", err.Error()
		}
		paths = append(paths, p)
	}
	for _, mode := range []string{"oneline", "json"} {
		opts := al.LinterOptions{Oneline: true, Color: al.ColorOptionKindNever, WorkingDir: dir}
		if mode == "json" {
			opts = al.LinterOptions{Format: "{{json .}}", WorkingDir: dir}
		}
		var buf bytes.Buffer
		var errs []*al.Error
		var ferr error
		var pan any
		func() {
			defer func() { pan = recover() }()
			l, e := al.NewLinter(&buf, &opts)
			if e != nil {
				ferr = e
				return
			}
			errs, ferr = l.LintFiles(paths, nil)
		}()
		if pan != nil || ferr != nil {
			return "C16/panic-or-fatal:several-files", fmt.Sprintf("%v %v", pan, ferr)
		}
		var want, got []string
		for _, e := range errs {
			want = append(want, fmt.Sprintf("%s:%d:%d", e.Filepath, e.Line, e.Column))
		}
		if mode == "json" {
			var fs []al.ErrorTemplateFields
			if buf.Len() > 0 {
				if err := json.Unmarshal(buf.Bytes(), &fs); err != nil {
					return "C16/json-output-invalid(several-files)", fmt.Sprintf("%v\n%q", err, buf.String())
				}
			}
			for _, f := range fs {
				got = append(got, fmt.Sprintf("%s:%d:%d", f.Filepath, f.Line, f.Column))
			}
		} else {
			for _, ln := range strings.Split(strings.TrimSuffix(buf.String(), "\n"), "\n") {
				if ln == "" {
					continue
				}
				m := matcherRE.FindStringSubmatch(ln)
				if m == nil {
					return "C16/oneline-line-not-matched-by-problem-matcher", fmt.Sprintf("several files: line %q", ln)
				}
				got = append(got, m[1]+":"+m[2]+":"+m[3])
			}
		}
		if strings.Join(got, "\n") != strings.Join(want, "\n") {
			return "C16/output-order-differs-from-returned-diagnostics", fmt.Sprintf("%s mode, files %v\nprinted:  %v\nreturned: %v", mode, c.Names, got, want)
		}
	}
	return "", ""
}

func isPrintableASCII(s string) bool {
	for i := 0; i < len(s); i++ {
		if s[i] < 0x20 || s[i] > 0x7e {
			return false
		}
	}
	return true
}

var reQuotedPart = regexp.MustCompile(`"(?:[^"\\]|\\.)*"`)

// messageTemplate reduces a message to its template class: quoted parts and type descriptions removed.
func messageTemplate(m string) string {
	m = reQuotedPart.ReplaceAllString(m, "Q")
	if i := strings.Index(m, "{"); i >= 0 {
		m = m[:i] + "{T}"
	}
	m = strings.Join(strings.Fields(m), " ")
	if len(m) > 60 {
		m = m[:60]
	}
	return m
}
