package checks

import (
	"encoding/json"
	"fmt"
	"sort"
	"strings"
	"testing"
	eg "verifharness/exprgen"

	"pgregory.net/rapid"
	"verifharness/hx"
	"verifharness/wf"
	ye "verifharness/yamlemit"
)

// ---- C03: every ${{ }} placeholder in a workflow is checked -----------------------------------------

type c03Case struct {
	YAML     string `json:"yaml"` // the workflow after the replacement
	Path     string `json:"path"` // workflow key path of the replaced leaf
	Config   string `json:"config,omitempty"`
	Line     int    `json:"line"`
	Col0     int    `json:"col0"`
	Col1     int    `json:"col1"`
	Template bool   `json:"template"` // the leaf is evaluated as an expression template
	Form     string `json:"form"`     // the malformed placeholder
}

func checkPlaceholder(c *c03Case) (key, msg string) {
	ds, err, pan, st := lintSafe([]byte(c.YAML))
	if pan != nil {
		return "C03/panic", fmt.Sprintf("panic %v at %s\n%s", pan, st, c.YAML)
	}
	if err != nil {
		return "C03/linter-fatal", fmt.Sprintf("%v\n%s", err, c.YAML)
	}
	at, syn := false, false
	for _, d := range ds {
		if d.Line == c.Line && d.Col >= c.Col0 && d.Col <= c.Col1 {
			at = true
			if d.Kind == "expression" && isSyntaxMsg(d.Msg) {
				syn = true
			}
		}
	}
	cls := c.Path
	if c.Config != "" {
		cls += "[" + c.Config + "]"
	}
	if !at {
		return "C03/no-diagnostic-at-scalar@" + cls, fmt.Sprintf("malformed placeholder %q at %s (line %d cols %d-%d) got no diagnostic there; all diagnostics: %v\n%s", c.Form, c.Path, c.Line, c.Col0, c.Col1, diagStrings(ds), c.YAML)
	}
	if c.Template && !syn {
		return "C03/no-syntax-diagnostic@" + cls, fmt.Sprintf("malformed placeholder %q at template position %s (line %d cols %d-%d) got no expression syntax diagnostic; all diagnostics: %v\n%s", c.Form, c.Path, c.Line, c.Col0, c.Col1, diagStrings(ds), c.YAML)
	}
	return "", ""
}

func init() {
	hx.RegisterReplayer("C03/placeholder", func(r *hx.Run, data json.RawMessage) {
		var c c03Case
		if err := json.Unmarshal(data, &c); err != nil {
			panic(err)
		}
		if k, m := checkPlaceholder(&c); k != "" {
			r.Report(k, m, "C03/placeholder", &c)
		}
	})
}

var c03Lone = []string{"${{ github. }}", "${{ }}", "${{ 'x }}", "${{ a b }}"}

// c03GenMalformed derives a placeholder the reference grammar rejects from a generated well-formed
// expression by one token edit (delete, insert, replace, extra separator next to a bracket).
func c03GenMalformed(rt *rapid.T) string {
	for try := 0; try < 8; try++ {
		n := eg.GenSyntax(rt, rapid.IntRange(1, 3).Draw(rt, "depth"))
		p := &eg.Printer{WS: func() string { return " " }}
		p.Print(n)
		toks := append([]string(nil), p.Tokens()...)
		if len(toks) == 0 {
			continue
		}
		i := rapid.IntRange(0, len(toks)-1).Draw(rt, "at")
		ins := rapid.SampledFrom([]string{",", ")", "(", "]", "[", ".", "==", "&&", "!", "a", "1", "'s'", "*", "=", "&", "|", "-", "+", "'abc", "0x", "}", "#", "?", "1.", "1e", "<>"}).Draw(rt, "tok")
		switch rapid.IntRange(0, 4).Draw(rt, "edit") {
		case 0:
			toks = append(toks[:i:i], toks[i+1:]...)
		case 1:
			toks = append(toks[:i:i], append([]string{ins}, toks[i:]...)...)
		case 2:
			toks[i] = ins
		default:
			// an extra comma directly inside a bracket pair: f(a, ) / f(, a) / x[1, ]
			var cand []int
			for j, t := range toks {
				if t == ")" || t == "]" {
					cand = append(cand, j)
				} else if (t == "(" || t == "[") && j+1 < len(toks) {
					cand = append(cand, j+1)
				}
			}
			if len(cand) == 0 {
				continue
			}
			j := cand[rapid.IntRange(0, len(cand)-1).Draw(rt, "bracket")]
			toks = append(toks[:j:j], append([]string{","}, toks[j:]...)...)
		}
		src := strings.Join(toks, " ")
		if strings.Contains(src, "}}") || strings.Contains(src, "${{") || !isASCII(src) || strings.ContainsAny(src, "\n\r\t\"") {
			continue
		}
		if _, ok := eg.Parse(src + "}}"); !ok {
			return "${{ " + src + " }}"
		}
	}
	return "${{ f(a, ) }}"
}

// c03GenLexTail: a complete well-formed expression followed by text in which the LEXER fails in the
// middle of a token (half an operator, an unterminated string, a number without digits, half a closing
// brace), optionally followed by more well-formed text.
func c03GenLexTail(rt *rapid.T) string {
	for try := 0; try < 8; try++ {
		p := &eg.Printer{WS: func() string { return " " }}
		p.Print(eg.GenSyntax(rt, rapid.IntRange(1, 2).Draw(rt, "depth")))
		head := strings.Join(p.Tokens(), " ")
		if rapid.Bool().Draw(rt, "knownhead") {
			head = rapid.SampledFrom([]string{"github.sha", "github.run_number", "true", "'x'", "(github.ref)", "contains(github.ref, 'a')", "github.event.x[0]"}).Draw(rt, "head")
		}
		bad := rapid.SampledFrom([]string{"=", "&", "|", "-", "'unterminated", "0x", "}", "!=!", "<=>", "1e", "0o", "."}).Draw(rt, "bad")
		tail := rapid.SampledFrom([]string{"", " github.ref", " 1", " b", " 'y'", " (true)"}).Draw(rt, "tail")
		src := head + rapid.SampledFrom([]string{" ", " ", ""}).Draw(rt, "gap") + bad + tail
		if strings.Contains(src, "}}") || strings.Contains(src, "${{") || !isASCII(src) || strings.ContainsAny(src, "\n\r\t\"") {
			continue
		}
		if _, ok := eg.Parse(src + " }}"); !ok {
			return "${{ " + src + " }}"
		}
	}
	return "${{ github.sha = github.ref }}"
}

var c03Embedded = []string{"a ${{ github. }} b", "${{ 'ok' }} ${{ 'x }}", "x }} y ${{ github. }}", "{\"a\":{\"b\":1}} ${{ a b }}", "${{ 'ok' }} }} ${{ 'x }}"}

// scalarLeaves lists the value leaves (mapping values and sequence elements) of a tree.
func scalarLeaves(root *ye.Node) []*ye.Node {
	var leaves []*ye.Node
	root.Walk(func(n, p *ye.Node, idx int, isKey bool) {
		if n.Kind == ye.Scalar && !isKey && wf.LeafOf(n) != nil {
			leaves = append(leaves, n)
		}
	})
	return leaves
}

func TestC03(t *testing.T) {
	hx.Main(t, "C03", func(r *hx.Run) {
		r.Rule = "clean workflow from the workflow-syntax model (all sections incl. rare ones and expression-valued forms; random layout and quoting) x EVERY scalar value leaf x malformed placeholder forms {${{ github. }}, ${{ }}, ${{ 'x }}, ${{ a b }}; for untyped string leaves also embedded in text} plus 3 placeholders per workflow derived from generated well-formed expressions by one token edit (delete / insert / replace / extra comma inside a bracket pair) which the reference grammar of C04 rejects (the inserted tokens include halves of operators, unterminated strings and digit-less numbers; one of the three is a complete well-formed expression followed by such a lexer-level error). Oracle from the model: >=1 diagnostic on the leaf's line within its column span; for template leaves an expression syntax diagnostic. Every (workflow, leaf, form) is non-trivial; distinct = (key path with sibling-configuration class, form)."
		r.Assumptions = []string{"workflow-syntax model in harness/wf (written from GitHub's syntax reference)", "only single-line scalars are replaced", "exempt from the template clause: event names, input type, permissions values, secrets: inherit"}
		covered := map[string]int64{}
		unclean := 0
		r.Check(t, "leaves", hx.N(60, 800), func(rt *rapid.T) {
			g := &wf.G{T: rt, Rare: rapid.Bool().Draw(rt, "rare")}
			w := g.Workflow()
			g.Styles(w.Root)
			if rapid.Bool().Draw(rt, "shufflekeys") {
				g.ShuffleKeys(w.Root)
			}
			lay := g.Layout()
			src := ye.Emit(w.Root, lay)
			if ds, err := lint(src); err != nil || len(ds) > 0 {
				unclean++
				r.Discard("generated workflow not clean")
				if unclean <= 3 {
					r.Extra[fmt.Sprintf("unclean_sample_%d", unclean)] = map[string]any{"yaml": src, "diags": diagStrings(ds)}
				}
				return
			}
			generated := []string{c03GenMalformed(rt), c03GenMalformed(rt), c03GenLexTail(rt)}
			for _, lf := range scalarLeaves(w.Root) {
				info := wf.LeafOf(lf)
				forms := append(append([]string{}, c03Lone...), generated...)
				if info.Typed == "" && info.Exempt == "" {
					forms = append(forms, c03Embedded...)
				}
				oldVal, oldStyle, oldRaw := lf.Val, lf.Style, lf.Raw
				for fi, form := range forms {
					if strings.HasSuffix(info.Path, ".if") && strings.Index(form, "}}") < strings.Index(form, "${{") {
						continue // an if: condition whose text closes before it opens is evaluated as a bare expression
					}
					lf.Val, lf.Raw = form, ""
					lf.Style = []ye.Style{ye.Auto, ye.Single, ye.Double}[(fi+len(lf.Path))%3]
					msrc := ye.Emit(w.Root, lay)
					c := &c03Case{YAML: msrc, Path: info.Path, Config: info.Config, Line: lf.Line, Col0: lf.Col, Col1: lf.EndCol, Template: info.Template && info.Exempt == "", Form: form}
					r.Eval()
					cls := info.Path
					if info.Config != "" {
						cls += "[" + info.Config + "]"
					}
					if fi >= len(c03Lone) && fi < len(c03Lone)+len(generated) {
						r.NT(cls, "generated")
						r.Class("generated-malformed-form")
					} else {
						r.NT(cls, form)
					}
					covered[cls]++
					if k, m := checkPlaceholder(c); k != "" {
						lf.Val, lf.Style, lf.Raw = oldVal, oldStyle, oldRaw
						r.Fail(rt, k, m, "C03/placeholder", c)
					}
					if covered[cls] == 1 {
						r.Sample(map[string]any{"path": cls, "form": form, "line": lf.Line, "col": lf.Col})
					}
				}
				lf.Val, lf.Style, lf.Raw = oldVal, oldStyle, oldRaw
			}
		})
		var ks []string
		for k := range covered {
			ks = append(ks, k)
		}
		sort.Strings(ks)
		r.Extra["leaf_paths_covered"] = len(ks)
		r.Extra["leaf_path_counts"] = covered
		_ = strings.Join
	})
}
