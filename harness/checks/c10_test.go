package checks

import (
	"bytes"
	"encoding/json"
	"fmt"
	"os"
	"path/filepath"
	"runtime"
	"sort"
	"strings"
	"testing"

	al "github.com/rhysd/actionlint"
	"pgregory.net/rapid"
	"verifharness/hx"
	"verifharness/wf"
	"verifharness/world"
	ye "verifharness/yamlemit"
)

// ---- C10: multi-file runs: per-file results are isolated and race-free -------------------------------

type c10Case struct {
	Files   map[string]string `json:"files"`            // path relative to the world root -> content
	Repos   []string          `json:"repos"`            // repository roots relative to the world root
	Cwd     string            `json:"cwd"`              // relative to the world root
	Args    []string          `json:"args"`             // files to lint, in order, relative to the world root
	Spell   []string          `json:"spell"`            // per argument: "rel", "dot", "abs"
	Procs   int               `json:"procs"`            // GOMAXPROCS
	Repeats int               `json:"repeats"`          // how often the together-run is repeated
	Ignore  []string          `json:"ignore,omitempty"` // -ignore patterns of the invocation
}

func (c *c10Case) materialise() *world.World {
	w := world.New()
	for _, r := range c.Repos {
		w.Repo(r)
	}
	for p, s := range c.Files {
		w.Write(p, s)
	}
	os.MkdirAll(filepath.Join(w.Root, c.Cwd, "sub"), 0o755)
	os.MkdirAll(filepath.Join(w.Root, "detour"), 0o755)
	return w
}

func c10Key(cwd, p string) string {
	if !filepath.IsAbs(p) {
		p = filepath.Join(cwd, p)
	}
	return filepath.Clean(p)
}

func c10Show(c *c10Case) string {
	var ks []string
	for k := range c.Files {
		ks = append(ks, k)
	}
	sort.Strings(ks)
	var b strings.Builder
	fmt.Fprintf(&b, "repos=%v cwd=%q args=%v spell=%v GOMAXPROCS=%d\n", c.Repos, c.Cwd, c.Args, c.Spell, c.Procs)
	for _, k := range ks {
		fmt.Fprintf(&b, "### %s\n%s\n", k, c.Files[k])
	}
	return b.String()
}

func checkIsolation(c *c10Case) (key, msg string, stats map[string]int) {
	stats = map[string]int{}
	w := c.materialise()
	defer w.Cleanup()
	cwd := filepath.Join(w.Root, c.Cwd)
	spellPath := func(i int) string {
		abs := filepath.Join(w.Root, c.Args[i])
		switch c.Spell[i] {
		case "abs":
			return abs
		case "abs-dotdot":
			// absolute but not normalised: through another repository (or a plain directory) and back
			via := "detour"
			for _, r := range c.Repos {
				if !strings.HasPrefix(c.Args[i], r+"/") {
					via = r
				}
			}
			up := strings.Repeat("../", strings.Count(via, "/")+1)
			return w.Root + "/" + via + "/" + up + c.Args[i]
		case "rel-dotdot":
			r, _ := filepath.Rel(cwd, abs)
			return "sub/../" + r
		case "dot":
			r, _ := filepath.Rel(cwd, abs)
			return "./" + r
		}
		r, _ := filepath.Rel(cwd, abs)
		return r
	}
	// relative arguments are resolved against the process working directory
	if wd, err := os.Getwd(); err == nil {
		defer os.Chdir(wd)
	}
	if err := os.Chdir(cwd); err != nil {
		return "harness/c10-chdir", err.Error(), stats
	}
	old := runtime.GOMAXPROCS(0)
	defer runtime.GOMAXPROCS(old)
	if c.Procs > 0 {
		runtime.GOMAXPROCS(c.Procs)
	}
	fpBefore := al.VerifTablesFingerprint()
	dumpBefore := ""
	if os.Getenv("VERIF_C10_DUMP") != "" {
		dumpBefore = al.VerifTablesDump()
	}
	// alone
	alone := map[string][]string{}
	for i := range c.Args {
		var errs []*al.Error
		var err error
		var pan any
		func() {
			defer func() { pan = recover() }()
			l, _ := al.NewLinter(&bytes.Buffer{}, &al.LinterOptions{WorkingDir: cwd, IgnorePatterns: c.Ignore})
			errs, err = l.LintFile(spellPath(i), nil)
		}()
		if pan != nil || err != nil {
			return "C10/panic-or-fatal", fmt.Sprintf("alone %s: %v %v\n%s", c.Args[i], pan, err, c10Show(c)), stats
		}
		k := c10Key(cwd, spellPath(i))
		for _, e := range errs {
			alone[k] = append(alone[k], fmt.Sprintf("%d:%d [%s] %s", e.Line, e.Column, e.Kind, e.Message))
		}
		if len(errs) > 0 {
			stats["files-with-diagnostics"]++
		}
	}
	reps := c.Repeats
	if reps < 1 {
		reps = 1
	}
	for rep := 0; rep < reps; rep++ {
		var errs []*al.Error
		var err error
		var pan any
		func() {
			defer func() { pan = recover() }()
			l, _ := al.NewLinter(&bytes.Buffer{}, &al.LinterOptions{WorkingDir: cwd, IgnorePatterns: c.Ignore})
			var paths []string
			for i := range c.Args {
				paths = append(paths, spellPath(i))
			}
			errs, err = l.LintFiles(paths, nil)
		}()
		if pan != nil || err != nil {
			return "C10/panic-or-fatal", fmt.Sprintf("together: %v %v\n%s", pan, err, c10Show(c)), stats
		}
		together := map[string][]string{}
		for _, e := range errs {
			k := c10Key(cwd, e.Filepath)
			together[k] = append(together[k], fmt.Sprintf("%d:%d [%s] %s", e.Line, e.Column, e.Kind, e.Message))
		}
		for i := range c.Args {
			k := c10Key(cwd, spellPath(i))
			if strings.Join(alone[k], "\n") != strings.Join(together[k], "\n") {
				onlyAlone, onlyTogether := diffStrings(alone[k], together[k])
				key := "C10/file-gets-other-diagnostics-when-linted-together"
				if strings.Contains(strings.Join(append(append([]string{}, onlyAlone...), onlyTogether...), " "), "is required by") && (strings.Contains(c10Show(c), "required: True") || strings.Contains(c10Show(c), "required: TRUE")) {
					key = "C10/callee-interface-differs-between-file-and-ast(required: True)"
				}
				all := strings.Join(append(onlyAlone, onlyTogether...), "\n")
				// attribution to a sibling repository whose name is a prefix?
				for _, r := range c.Repos {
					for _, r2 := range c.Repos {
						if r != r2 && strings.HasPrefix(r2, r) && strings.HasPrefix(c.Args[i], r2+"/") && (strings.Contains(all, "lab-") || strings.Contains(all, "VAR_") || strings.Contains(all, "config") || strings.Contains(all, "in_") || strings.Contains(all, "p_") || strings.Contains(all, "o_") || strings.Contains(all, "out_")) {
							key = "C10/file-attributed-to-sibling-repository-with-prefix-name"
							if strings.HasPrefix(r2, r+"/") {
								key = "C10/file-of-nested-repository-attributed-to-the-enclosing-repository"
							}
						}
					}
				}
				// the known attribution defect exactly? Then the file, linted with the project of an
				// enclosing repository forced, gives what the together-run gave
				for _, r := range c.Repos {
					for _, r2 := range c.Repos {
						if !strings.HasPrefix(r2, r+"/") || !strings.HasPrefix(c.Args[i], r2+"/") {
							continue
						}
						func() {
							defer func() { recover() }()
							proj, perr := al.NewProject(filepath.Join(w.Root, r))
							if perr != nil || proj == nil {
								return
							}
							l, _ := al.NewLinter(&bytes.Buffer{}, &al.LinterOptions{WorkingDir: cwd, IgnorePatterns: c.Ignore})
							errs, err := l.LintFile(spellPath(i), proj)
							if err != nil {
								return
							}
							var forced []string
							for _, e := range errs {
								forced = append(forced, fmt.Sprintf("%d:%d [%s] %s", e.Line, e.Column, e.Kind, e.Message))
							}
							if strings.Join(forced, "\n") == strings.Join(together[k], "\n") {
								key = "C10/file-of-nested-repository-attributed-to-the-enclosing-repository"
							}
						}()
					}
				}
				return key, fmt.Sprintf("file %s (repetition %d)\nonly when linted alone: %v\nonly when linted together: %v\n%s", c.Args[i], rep, onlyAlone, onlyTogether, c10Show(c)), stats
			}
			delete(together, k)
		}
		if len(together) > 0 {
			return "C10/diagnostics-for-a-file-that-was-not-an-argument", fmt.Sprintf("%v\n%s", together, c10Show(c)), stats
		}
	}
	if fp := al.VerifTablesFingerprint(); fp != fpBefore {
		detail := ""
		if dumpBefore != "" {
			after := al.VerifTablesDump()
			la, lb := strings.Split(dumpBefore, "\n"), strings.Split(after, "\n")
			for i := range la {
				if i < len(lb) && la[i] != lb[i] {
					detail += fmt.Sprintf("\n- %s\n+ %s", trunc(la[i], 300), trunc(lb[i], 300))
				}
			}
		}
		return "C10/built-in-table-modified", fmt.Sprintf("fingerprint of the built-in tables changed during the run%s\n%s", detail, c10Show(c)), stats
	}
	return "", "", stats
}

func trunc(s string, n int) string {
	if len(s) > n {
		return s[:n] + "..."
	}
	return s
}

func init() {
	hx.RegisterReplayer("C10/world", func(r *hx.Run, data json.RawMessage) {
		var c c10Case
		if err := json.Unmarshal(data, &c); err != nil {
			panic(err)
		}
		os.Setenv("VERIF_C10_DUMP", "1")
		c.Repeats = 10
		if k, m, _ := checkIsolation(&c); k != "" {
			r.Report(k, m, "C10/world", &c)
		}
	})
}

// c10Tag derives the names of a repository's own entities (labels, variables, inputs, outputs) from
// its directory name; names that differ only in letter case get different tags.
func c10Tag(repo string) string {
	t := strings.ToUpper(strings.NewReplacer("-", "_", "/", "_").Replace(repo))
	if repo != strings.ToLower(repo) {
		n := 0
		for i, c := range repo {
			if c >= 'A' && c <= 'Z' {
				n += i + 1
			}
		}
		t += fmt.Sprintf("_U%d", n)
	}
	return t
}

func c10Workflow(rt *rapid.T, repo string, allRepos []string, hasConfig bool, idx int) (string, []string) {
	R := c10Tag(repo)
	other := allRepos[rapid.IntRange(0, len(allRepos)-1).Draw(rt, "other")]
	O := c10Tag(other)
	var b strings.Builder
	var feats []string
	b.WriteString("on:\n")
	switch rapid.IntRange(0, 3).Draw(rt, "ev") {
	case 0:
		b.WriteString("  issues:\n    types: [opened, bogus_type]\n") // message formats the shared webhook table
		feats = append(feats, "invalid-activity-type")
	case 1:
		b.WriteString("  pull_request:\n    types: [zz_unknown]\n")
		feats = append(feats, "invalid-activity-type")
	default:
		b.WriteString("  push:\n")
	}
	b.WriteString("jobs:\n")
	nj := rapid.IntRange(1, 3).Draw(rt, "nj")
	for j := 0; j < nj; j++ {
		switch rapid.IntRange(0, 5).Draw(rt, "jk") {
		case 0: // own label
			fmt.Fprintf(&b, "  j%d:\n    runs-on: [self-hosted, lab-%s]\n    steps:\n      - run: echo ${{ vars.VAR_%s }}\n", j, strings.ReplaceAll(repo, "/", "-"), R)
			feats = append(feats, "own-config-label-and-variable")
		case 1: // other repo's label / variable
			fmt.Fprintf(&b, "  j%d:\n    runs-on: [self-hosted, lab-%s]\n    steps:\n      - run: echo ${{ vars.VAR_%s }} ${{ vars.NO_SUCH }}\n", j, strings.ReplaceAll(other, "/", "-"), O)
			feats = append(feats, "other-config-label-and-variable")
		case 2: // local action
			fmt.Fprintf(&b, "  j%d:\n    runs-on: ubuntu-latest\n    steps:\n      - uses: ./act\n        id: a\n", j)
			if rapid.Bool().Draw(rt, "givein") {
				fmt.Fprintf(&b, "        with:\n          in_%s: x\n", strings.ToLower(R))
			}
			fmt.Fprintf(&b, "      - run: echo ${{ steps.a.outputs.out_%s }} ${{ steps.a.outputs.nosuch }}\n", strings.ToLower(R))
			feats = append(feats, "local-action")
		case 3: // reusable workflow call
			// a local call with a ref is invalid (reported); it must not disturb the valid calls of other files
			ref := ""
			if rapid.IntRange(0, 3).Draw(rt, "callwithref") == 0 {
				ref = "@main"
				feats = append(feats, "reusable-workflow-call-with-ref")
			}
			fmt.Fprintf(&b, "  j%d:\n    uses: ./.github/workflows/callee.yml%s\n", j, ref)
			if rapid.Bool().Draw(rt, "givep") {
				fmt.Fprintf(&b, "    with:\n      p_%s: x\n", strings.ToLower(R))
			} else if rapid.Bool().Draw(rt, "giveother") {
				fmt.Fprintf(&b, "    with:\n      p_%s: x\n", strings.ToLower(O))
			}
			fmt.Fprintf(&b, "  j%dafter:\n    needs: [j%d]\n    runs-on: ubuntu-latest\n    steps:\n      - run: echo ${{ needs.j%d.outputs.o_%s }} ${{ needs.j%d.outputs.nosuch }}\n", j, j, j, strings.ToLower(R), j)
			feats = append(feats, "reusable-workflow-call")
		case 4:
			fmt.Fprintf(&b, "  j%d:\n    runs-on: zz-unknown-label\n    steps:\n      - run: echo ${{ github.nosuch }}\n        shell: zsh-unknown\n", j)
			feats = append(feats, "plain-errors")
		default:
			fmt.Fprintf(&b, "  j%d:\n    runs-on: ubuntu-latest\n    permissions:\n      zz-scope: read\n    steps:\n      - run: echo\n", j)
			feats = append(feats, "plain-errors")
		}
	}
	return b.String(), feats
}

// genC10World draws a multi-repository world with an argument list.
func genC10World(rt *rapid.T) (*c10Case, []string) {
	var allFeats []string
	c := &c10Case{Files: map[string]string{}}
	nrepos := rapid.IntRange(1, 3).Draw(rt, "nrepos")
	pool := rapid.SampledFrom([][]string{{"repo", "repo2", "repo-x"}, {"a/repo", "a/repo2", "b"}, {"proj", "project", "proj/sub"}, {"x", "y", "z"}, {"Service", "service", "SERVICE"}, {"a/Repo", "a/repo", "A/repo"}}).Draw(rt, "names")
	c.Repos = append(c.Repos, pool[:nrepos]...)
	var allFiles []string
	for _, repo := range c.Repos {
		R := c10Tag(repo)
		hasConfig := rapid.IntRange(0, 3).Draw(rt, "hascfg") > 0
		if hasConfig {
			cfg := fmt.Sprintf("self-hosted-runner:\n  labels:\n    - lab-%s\n    - zeta\n    - alpha\nconfig-variables:\n  - VAR_%s\n  - ZED\n  - ABLE\n", strings.ReplaceAll(repo, "/", "-"), R)
			// per-path ignore patterns: every repository ignores another kind of message
			if rapid.Bool().Draw(rt, "pathsignore") {
				pats := rapid.SampledFrom([][]string{{"label .+ is unknown"}, {"property .+ is not defined"}, {"invalid activity type"}, {"undefined configuration variable", "shell name"}, {"is not defined in", "missing input"}}).Draw(rt, "pathspats")
				cfg += "paths:\n  .github/workflows/**/*.yml:\n    ignore:\n"
				for _, p := range pats {
					cfg += "      - '" + p + "'\n"
				}
			}
			c.Files[repo+"/.github/actionlint.yaml"] = cfg
		}
		c.Files[repo+"/act/action.yml"] = fmt.Sprintf("name: act\ndescription: d\ninputs:\n  in_%s:\n    description: d\n    required: true\noutputs:\n  out_%s:\n    description: d\nruns:\n  using: node20\n  main: index.js\n", strings.ToLower(R), strings.ToLower(R))
		c.Files[repo+"/act/index.js"] = ""
		callee := repo + "/.github/workflows/callee.yml"
		// the callee's interface is derived in two ways (from the file, or from the AST when the
		// callee is part of the run): vary everything the derivations look at
		ity := rapid.SampledFrom([]string{"string", "string", "number", "boolean"}).Draw(rt, "calleetype")
		ireq := rapid.SampledFrom([]string{"true", "true", "True", "TRUE", "false", ""}).Draw(rt, "calleereq")
		idef := ""
		if rapid.IntRange(0, 3).Draw(rt, "calleedef") == 0 {
			idef = "        default: " + map[string]string{"string": "x", "number": "1", "boolean": "true"}[ity] + "\n"
		}
		reqLine := ""
		if ireq != "" {
			reqLine = "        required: " + ireq + "\n"
		}
		secLine := ""
		if rapid.Bool().Draw(rt, "calleesecret") {
			secLine = fmt.Sprintf("    secrets:\n      s_%s:\n        required: %s\n", strings.ToLower(R), rapid.SampledFrom([]string{"true", "True", "false"}).Draw(rt, "secreq"))
		}
		// names are case-insensitive: the definition may be spelled differently from the uses
		outName := "o_" + strings.ToLower(R)
		switch rapid.IntRange(0, 3).Draw(rt, "outcase") {
		case 0:
			outName = strings.ToUpper(outName)
		case 1:
			outName = "O_" + strings.ToLower(R)
		}
		outLines := fmt.Sprintf("    outputs:\n      %s:\n        value: x\n", outName)
		switch rapid.IntRange(0, 5).Draw(rt, "calleeouts") {
		case 0:
			outLines = "" // no outputs section at all
		case 1:
			outLines += "      o_second:\n        value: y\n        description: d\n"
		}
		c.Files[callee] = fmt.Sprintf("on:\n  workflow_call:\n    inputs:\n      "+rapid.SampledFrom([]string{"p", "p", "P"}).Draw(rt, "incase")+"_%s:\n        type: %s\n%s%s%s%sjobs:\n  a:\n    runs-on: ubuntu-latest\n    steps:\n      - run: echo ${{ inputs.p_%s }}\n", strings.ToLower(R), ity, reqLine, idef, secLine, outLines, strings.ToLower(R))
		if rapid.IntRange(0, 7).Draw(rt, "calleenoinputs") == 0 {
			// a callee without any interface section
			c.Files[callee] = "on:\n  workflow_call:\njobs:\n  a:\n    runs-on: ubuntu-latest\n    steps:\n      - run: echo\n"
		}
		allFiles = append(allFiles, callee)
		nw := rapid.IntRange(1, 4).Draw(rt, "nw")
		for i := 0; i < nw; i++ {
			p := fmt.Sprintf("%s/.github/workflows/w%d.yml", repo, i)
			src, feats := c10Workflow(rt, repo, c.Repos, hasConfig, i)
			c.Files[p] = src
			allFiles = append(allFiles, p)
			allFeats = append(allFeats, feats...)
		}
	}
	if rapid.IntRange(0, 3).Draw(rt, "loose") == 0 {
		for i := 0; i < rapid.IntRange(1, 2).Draw(rt, "nloose"); i++ {
			p := fmt.Sprintf("loose/w%d.yml", i)
			c.Files[p] = "on: push\njobs:\n  a:\n    runs-on: zz-unknown\n    steps:\n      - run: echo ${{ github.nosuch }}\n  b:\n    uses: ./x.yml\n"
			allFiles = append(allFiles, p)
		}
	}
	// arguments
	perm := rapid.Permutation(allFiles).Draw(rt, "order")
	k := rapid.IntRange(2, min(len(perm), 10)).Draw(rt, "nargs")
	c.Args = perm[:k]
	for range c.Args {
		c.Spell = append(c.Spell, rapid.SampledFrom([]string{"rel", "rel", "dot", "abs", "abs-dotdot", "rel-dotdot"}).Draw(rt, "spell"))
	}
	c.Cwd = rapid.SampledFrom(append([]string{"", ""}, c.Repos...)).Draw(rt, "cwd")
	c.Procs = rapid.SampledFrom([]int{1, 2, 4, 16}).Draw(rt, "procs")
	// 0-8 -ignore patterns (most of them match nothing)
	for i := rapid.SampledFrom([]int{0, 0, 1, 2, 3, 4, 5, 6, 7, 8}).Draw(rt, "nignore"); i > 0; i-- {
		c.Ignore = append(c.Ignore, rapid.SampledFrom([]string{"zz-matches-nothing", "^never-[0-9]+$", "zz other", "scope .+ is unknown", "nothing at all"}).Draw(rt, "ignorepat"))
	}
	c.Repeats = 2
	return c, allFeats
}

func TestC10(t *testing.T) {
	race := os.Getenv("VERIF_RACE") != ""
	hx.Main(t, "C10", func(r *hx.Run) {
		r.Rule = "temporary worlds with 1-3 repositories (names may share a prefix: repo, repo2, repo-x, or differ only in letter case; optionally nested) and optional files outside any repository; every repository has its own configuration (self-hosted labels, config-variables, optionally per-path ignore patterns), the invocation 0-8 -ignore patterns, a well-formed local action and a well-formed reusable workflow; 2-10 workflow files using the own/other repository's labels and variables, the local action, the reusable workflow (callee part of the invocation or not), invalid activity types and undefined configuration variables (messages that format shared tables). Argument lists: random subsets and orders, relative / ./ / absolute spellings, cwd = world root or a repository root, GOMAXPROCS 1/2/4/16. Oracle: (1) per-file diagnostics of LintFiles(list) = LintFile(file) on a fresh linter; (2) fingerprint of all built-in tables (verif hook) unchanged; (3) the same property under the race detector. Non-trivial = >= 2 files with diagnostics, or caller+callee, or two repositories in one invocation; distinct = case hash."
		r.Assumptions = []string{"referenced local actions and reusable workflows are well-formed (as the statement requires)", "interleavings are sampled (GOMAXPROCS, repetition, many files), not enumerated; the race detector only sees executed paths"}
		n := hx.N(220, 3000)
		if race {
			n = hx.N(120, 1500)
		}
		// (2') no lint run, whatever the workflow, may modify a built-in table: generated workflows with
		// context objects used as whole values (matrix rows, include/exclude elements, env, with)
		if !race {
			r.Check(t, "tables-unchanged-by-any-workflow", hx.N(1500, 40000), func(rt *rapid.T) {
				g := &wf.G{T: rt, Rare: true}
				w := g.Workflow()
				var cand []*ye.Node
				for _, lf := range scalarLeaves(w.Root) {
					if l := wf.LeafOf(lf); l.Template && l.Exempt == "" {
						cand = append(cand, lf)
					}
				}
				pool := append([]string{"${{ github }}", "${{ github.event }}", "${{ github.event.pull_request }}", "${{ inputs }}", "${{ needs }}", "${{ env }}", "${{ vars }}", "${{ secrets }}", "${{ runner }}", "${{ job }}", "${{ strategy }}", "${{ steps }}", "${{ matrix }}", "${{ github.event.*.body }}", "${{ github.*.sha }}", "${{ fromJSON(toJSON(github)) }}", "${{ github.event || inputs }}", "${{ inputs && github }}"}, c09Exprs...)
				for i := 0; i < rapid.IntRange(1, 8).Draw(rt, "n"); i++ {
					lf := cand[rapid.IntRange(0, len(cand)-1).Draw(rt, "leaf")]
					lf.Val, lf.Raw, lf.Style = rapid.SampledFrom(pool).Draw(rt, "v"), "", ye.Double
				}
				// include / exclude elements: expression followed by a literal combination
				w.Root.Walk(func(n, p *ye.Node, idx int, isKey bool) {
					if isKey && (n.Val == "include" || n.Val == "exclude") && p.Vals[idx].Kind == ye.Seq && rapid.Bool().Draw(rt, "inc") {
						l := p.Vals[idx]
						e := ye.Q(rapid.SampledFrom(pool[:18]).Draw(rt, "ie"), ye.Double)
						lit := ye.M().Set("foo", ye.S("1")).Set("sha", ye.M().Set("x", ye.S("y")))
						l.Vals = append([]*ye.Node{e, lit}, l.Vals...)
					}
				})
				src := ye.Emit(w.Root, g.Layout())
				before := al.VerifTablesFingerprint()
				dump := ""
				if hx.P.Replay != "" {
					dump = al.VerifTablesDump()
				}
				_, _, pan, _ := lintSafe([]byte(src))
				r.Eval()
				r.NT(src)
				r.Class("single-file/tables-fingerprint")
				if pan != nil {
					return // crashes belong to C01
				}
				if al.VerifTablesFingerprint() != before {
					detail := ""
					if dump != "" {
						la, lb := strings.Split(dump, "\n"), strings.Split(al.VerifTablesDump(), "\n")
						for i := range la {
							if i < len(lb) && la[i] != lb[i] {
								detail += fmt.Sprintf("\n- %s\n+ %s", trunc(la[i], 400), trunc(lb[i], 400))
							}
						}
					}
					c := &c10Case{Files: map[string]string{"w.yml": src}, Args: []string{"w.yml"}, Spell: []string{"abs"}, Procs: 1}
					r.Fail(rt, "C10/built-in-table-modified-by-single-workflow", "linting this workflow changed the fingerprint of the built-in tables"+detail+"\n"+src, "C10/world", c)
				}
			})
		}
		r.Check(t, "worlds", n, func(rt *rapid.T) {
			c, feats := genC10World(rt)
			for _, f := range feats {
				r.Class("feature/" + f)
			}
			r.LastCase("C10/world", c)
			key, msg, st := checkIsolation(c)
			r.Eval()
			reposInArgs := map[string]bool{}
			calleeAndCaller := false
			for _, a := range c.Args {
				for _, rp := range c.Repos {
					if strings.HasPrefix(a, rp+"/") {
						reposInArgs[rp] = true
					}
				}
				if strings.HasSuffix(a, "callee.yml") {
					calleeAndCaller = true
				}
			}
			if st["files-with-diagnostics"] >= 2 || calleeAndCaller || len(reposInArgs) >= 2 {
				b, _ := json.Marshal(c)
				r.NT(string(b))
			}
			r.Class(fmt.Sprintf("repositories-in-invocation=%d", len(reposInArgs)))
			if calleeAndCaller {
				r.Class("callee-in-invocation")
			}
			if len(c.Repos) > 1 && strings.HasPrefix(c.Repos[1], c.Repos[0]) {
				r.Class("prefix-sharing-siblings")
			}
			r.Sample(map[string]any{"repos": c.Repos, "cwd": c.Cwd, "args": c.Args, "spell": c.Spell, "procs": c.Procs})
			if key != "" {
				r.Fail(rt, key, msg, "C10/world", c)
			}
		})
	})
}
