package checks

import (
	"bufio"
	"bytes"
	"encoding/json"
	"fmt"
	"os"
	"path/filepath"
	"runtime"
	"sort"
	"strings"
	"sync"
	"syscall"
	"testing"
	"time"

	al "github.com/rhysd/actionlint"
	"pgregory.net/rapid"
	"verifharness/hx"
	"verifharness/world"
)

// ---- C20: shellcheck/pyflakes integration loses nothing and bounds concurrency ------------------------

type c20Step struct {
	ID     string   `json:"id"`
	Shell  string   `json:"shell"` // "" = not given at step level
	Lines  []string `json:"lines"` // script lines (the marker line is added by render)
	Plan   string   `json:"plan"`
	N      int      `json:"n"`
	LatMS  int      `json:"lat_ms"`
	Inline bool     `json:"inline,omitempty"` // a one-line quoted script that starts with a placeholder and ends with "}}"
}

type c20Job struct {
	Shell   string    `json:"shell"`             // job defaults.run.shell
	Workdir int       `json:"workdir,omitempty"` // defaults.run.working-directory: 0 none, 1 before shell, 2 after shell (alone when no shell)
	Windows bool      `json:"windows"`
	RunsOn  int       `json:"runs_on_form,omitempty"` // 0 literal label; 1 list of labels; 2 expression; 3 group; 4 group + labels expression (2-4: no literal label, Windows is ignored)
	Steps   []c20Step `json:"steps"`
}

type c20File struct {
	Shell   string   `json:"shell"` // workflow defaults.run.shell
	Workdir int      `json:"workdir,omitempty"`
	Jobs    []c20Job `json:"jobs"`
}

type c20Case struct {
	Files  []c20File      `json:"files"`
	Delays map[string]int `json:"delays_us"` // schedule point -> injected delay
}

var fakeBin = func() string {
	b := os.Getenv("VERIF_BUILD")
	if b == "" {
		b = "/verif/.build"
	}
	return filepath.Join(b, "fakecmd")
}()

func effectiveShell(f *c20File, j *c20Job, s *c20Step) string {
	switch {
	case s.Shell != "":
		return s.Shell
	case j.Shell != "":
		return j.Shell
	case f.Shell != "":
		return f.Shell
	case j.Windows && j.RunsOn <= 1:
		return "pwsh"
	}
	return "bash"
}

func toolFor(shell string) (tool, sh string) {
	switch {
	case shell == "bash" || strings.HasPrefix(shell, "bash "):
		return "shellcheck", "bash"
	case shell == "sh" || strings.HasPrefix(shell, "sh "):
		return "shellcheck", "sh"
	case shell == "python" || strings.HasPrefix(shell, "python "):
		return "pyflakes", ""
	}
	return "", ""
}

// sanitize replaces every terminated ${{ ... }} by an equally long run of underscores.
func refSanitize(s string) string {
	var b strings.Builder
	for {
		i := strings.Index(s, "${{")
		if i < 0 {
			break
		}
		j := strings.Index(s[i:], "}}")
		if j < 0 {
			break
		}
		b.WriteString(s[:i])
		b.WriteString(strings.Repeat("_", j+2))
		s = s[i+j+2:]
	}
	b.WriteString(s)
	return b.String()
}

type c20Expect struct {
	tool, id, stdin string
	file            string
	runLine, runCol int
	issues          int
	fails           bool
	placeholder     bool
}

func (c *c20Case) render() (files map[string]string, expects []c20Expect) {
	files = map[string]string{}
	for fi := range c.Files {
		f := &c.Files[fi]
		y := &ybuf{}
		y.ln("on: push")
		if f.Shell != "" || f.Workdir != 0 {
			y.ln("defaults:")
			y.ln("  run:")
			if f.Workdir == 1 {
				y.ln("    working-directory: ./src")
			}
			if f.Shell != "" {
				y.ln("    shell: %s", f.Shell)
			}
			if f.Workdir == 2 {
				y.ln("    working-directory: ./src")
			}
		}
		y.ln("jobs:")
		name := fmt.Sprintf(".github/workflows/w%d.yml", fi)
		for ji := range f.Jobs {
			j := &f.Jobs[ji]
			y.ln("  j%d:", ji)
			label := "ubuntu-latest"
			if j.Windows {
				label = "windows-latest"
			}
			switch j.RunsOn {
			case 1:
				if j.Windows {
					y.ln("    runs-on: [self-hosted, Windows-2022]")
				} else {
					y.ln("    runs-on: [self-hosted, linux]")
				}
			case 2:
				y.ln("    runs-on: ${{ github.event.inputs.runner }}")
			case 3:
				y.ln("    runs-on:")
				y.ln("      group: my-group")
			case 4:
				y.ln("    runs-on:")
				y.ln("      group: my-group")
				y.ln("      labels: ${{ github.event.inputs.runner }}")
			default:
				y.ln("    runs-on: %s", label)
			}
			if j.Shell != "" || j.Workdir != 0 {
				y.ln("    defaults:")
				y.ln("      run:")
				if j.Workdir == 1 {
					y.ln("        working-directory: ./job")
				}
				if j.Shell != "" {
					y.ln("        shell: %s", j.Shell)
				}
				if j.Workdir == 2 {
					y.ln("        working-directory: ./job")
				}
			}
			y.ln("    steps:")
			if len(j.Steps) == 0 {
				y.ln("      - uses: actions/checkout@v4")
			}
			for si := range j.Steps {
				s := &j.Steps[si]
				marker := fmt.Sprintf("# MARK id=%s plan=%s n=%d lat=%d", s.ID, s.Plan, s.N, s.LatMS)
				lines := append([]string{marker}, s.Lines...)
				var runLine int
				script := strings.Join(lines, "\n") + "\n"
				if s.Inline {
					// "${{ x }} # MARK ... ${A:-${B}}": starts like a placeholder, ends with }}
					script = "${{ github.sha }} " + marker + " ${A:-${B}}"
					runLine = y.ln("      - run: '%s'", script)
				} else {
					runLine = y.ln("      - run: |")
					for _, l := range lines {
						y.ln("          %s", l)
					}
				}
				if s.Shell != "" {
					y.ln("        shell: %s", s.Shell)
				}
				tool, sh := toolFor(effectiveShell(f, j, s))
				if tool == "" {
					continue
				}
				e := c20Expect{tool: tool, id: s.ID, file: name, runLine: runLine, runCol: 9, placeholder: strings.Contains(script, "${{")}
				san := refSanitize(script)
				if tool == "shellcheck" {
					setup := "set -e"
					if sh == "bash" {
						setup = "set -eo pipefail"
					}
					e.stdin = setup + "\n" + san + "\n"
				} else {
					e.stdin = san
				}
				switch s.Plan {
				case "issues":
					e.issues = s.N
				case "exit-nonzero-silent", "kill", "kill-after-output":
					e.fails = true
				case "empty", "garbage":
					e.fails = tool == "shellcheck"
				case "two-documents", "json-then-garbage":
					// shellcheck: output that is not one JSON document is fatal; pyflakes: the stand-in
					// prints issue lines (two-documents) or no issue line at all
					e.fails = tool == "shellcheck"
					if tool == "pyflakes" && s.Plan == "two-documents" {
						e.issues = s.N + 1
					}
				}
				expects = append(expects, e)
			}
		}
		files[name] = y.b.String()
	}
	return
}

type c20Event struct {
	point string
	at    time.Time
}

type fakeRec struct {
	Tool  string `json:"tool"`
	Pid   int    `json:"pid"`
	ID    string `json:"id"`
	Plan  string `json:"plan"`
	Stdin string `json:"stdin"`
	Start int64  `json:"t_start"`
	End   int64  `json:"t_end"`
	Phase string `json:"phase"`
}

func c20Show(c *c20Case) string {
	files, _ := c.render()
	var ks []string
	for k := range files {
		ks = append(ks, k)
	}
	sort.Strings(ks)
	var b strings.Builder
	fmt.Fprintf(&b, "delays(us)=%v NumCPU=%d\n", c.Delays, runtime.NumCPU())
	for _, k := range ks {
		fmt.Fprintf(&b, "### %s\n%s\n", k, files[k])
	}
	return b.String()
}

func checkToolIntegration(c *c20Case) (key, msg string, stats map[string]int) {
	stats = map[string]int{}
	files, expects := c.render()
	w := world.New()
	defer w.Cleanup()
	w.Repo("")
	var paths []string
	var names []string
	for n := range files {
		names = append(names, n)
	}
	sort.Strings(names)
	for _, n := range names {
		paths = append(paths, w.Write(n, files[n]))
	}
	// tools: two names for one binary
	sc, pf := filepath.Join(w.Root, "fake-shellcheck"), filepath.Join(w.Root, "fake-pyflakes")
	bin, err := os.ReadFile(fakeBin)
	if err != nil {
		return "harness/c20-no-fakecmd", err.Error(), stats
	}
	os.WriteFile(sc, bin, 0o755)
	os.WriteFile(pf, bin, 0o755)
	logPath := filepath.Join(w.Root, "fake.log")
	os.Setenv("VERIF_FAKE_LOG", logPath)
	defer os.Unsetenv("VERIF_FAKE_LOG")
	// schedule hook: installed once for the process (see c20Hook); this case becomes the current one
	var mu sync.Mutex
	var events []c20Event
	c20Current.Lock()
	c20Current.record = func(point string) {
		mu.Lock()
		events = append(events, c20Event{point, time.Now()})
		mu.Unlock()
	}
	c20Current.delays = c.Delays
	c20Current.Unlock()
	defer func() {
		// tool goroutines of a run that ended with a fatal error may outlive LintFiles: let them
		// drain so that their events are not attributed to the next case
		deadline := time.Now().Add(5 * time.Second)
		for time.Now().Before(deadline) {
			mu.Lock()
			nrun, ncb := 0, 0
			for _, e := range events {
				if e.point == "run-enter" {
					nrun++
				} else if e.point == "callback-done" {
					ncb++
				}
			}
			mu.Unlock()
			if nrun == ncb {
				break
			}
			time.Sleep(2 * time.Millisecond)
		}
		c20Current.Lock()
		c20Current.record, c20Current.delays = nil, nil
		c20Current.Unlock()
	}()
	var errs []*al.Error
	var ferr error
	var pan any
	func() {
		defer func() { pan = recover() }()
		l, e := al.NewLinter(&bytes.Buffer{}, &al.LinterOptions{WorkingDir: w.Root, Shellcheck: sc, Pyflakes: pf})
		if e != nil {
			ferr = e
			return
		}
		errs, ferr = l.LintFiles(paths, nil)
	}()
	returned := time.Now()
	if pan != nil {
		return "C20/panic", fmt.Sprintf("%v\n%s", pan, c20Show(c)), stats
	}
	// tool log
	var recs []fakeRec
	if f, err := os.Open(logPath); err == nil {
		sc := bufio.NewScanner(f)
		sc.Buffer(make([]byte, 1<<20), 1<<24)
		for sc.Scan() {
			var r fakeRec
			if json.Unmarshal(sc.Bytes(), &r) == nil {
				recs = append(recs, r)
			}
		}
		f.Close()
	}
	starts := map[string][]fakeRec{}
	ends := map[int]fakeRec{}
	for _, r := range recs {
		if r.Phase == "start" {
			starts[r.Tool+"/"+r.ID] = append(starts[r.Tool+"/"+r.ID], r)
		} else {
			ends[r.Pid] = r
		}
	}
	stats["invocations"] = len(recs) / 2
	anyFail := false
	for _, e := range expects {
		if e.fails {
			anyFail = true
		}
	}
	// fatal error <=> a planned failure
	if anyFail && ferr == nil {
		var planned []string
		for _, e := range expects {
			if e.fails {
				planned = append(planned, e.tool+"/"+e.id)
			}
		}
		return "C20/tool-failure-not-fatal", fmt.Sprintf("tool invocations %v were planned to fail but LintFiles returned no error (%d diagnostics)\n%s", planned, len(errs), c20Show(c)), stats
	}
	if !anyFail && ferr != nil {
		return "C20/unexpected-fatal-error", fmt.Sprintf("%v\n%s", ferr, c20Show(c)), stats
	}
	if !anyFail {
		// exactly one invocation per script, with the sanitised script on stdin
		for _, e := range expects {
			got := starts[e.tool+"/"+e.id]
			if len(got) != 1 {
				return "C20/script-not-passed-exactly-once", fmt.Sprintf("%s script %s was passed %d times to the tool\n%s", e.tool, e.id, len(got), c20Show(c)), stats
			}
			if got[0].Stdin != e.stdin {
				k := "C20/stdin-differs-from-sanitised-script"
				if len(got[0].Stdin) != len(e.stdin) {
					k = "C20/placeholder-replacement-changes-length"
				}
				return k, fmt.Sprintf("%s script %s: stdin %q, expected %q\n%s", e.tool, e.id, got[0].Stdin, e.stdin, c20Show(c)), stats
			}
			delete(starts, e.tool+"/"+e.id)
		}
		if len(starts) > 0 {
			var ks []string
			for k := range starts {
				ks = append(ks, k)
			}
			return "C20/tool-run-for-script-of-other-shell", fmt.Sprintf("unexpected tool invocations %v\n%s", ks, c20Show(c)), stats
		}
		// diagnostics
		want := map[string]int{}
		for _, e := range expects {
			if e.issues > 0 {
				want[fmt.Sprintf("%s:%d:%d[%s]", e.file, e.runLine, e.runCol, e.tool)] += e.issues
			}
		}
		got := map[string]int{}
		for _, e := range errs {
			if e.Kind == "shellcheck" || e.Kind == "pyflakes" {
				got[fmt.Sprintf("%s:%d:%d[%s]", e.Filepath, e.Line, e.Column, e.Kind)]++
			}
		}
		for k, n := range want {
			if got[k] != n {
				return "C20/tool-issues-lost-or-duplicated", fmt.Sprintf("%s: tool printed %d issues, %d diagnostics\nall: %v\n%s", k, n, got[k], got, c20Show(c)), stats
			}
		}
		for k, n := range got {
			if want[k] != n {
				return "C20/tool-issues-lost-or-duplicated", fmt.Sprintf("%s: %d diagnostics, tool printed %d issues\n%s", k, n, want[k], c20Show(c)), stats
			}
		}
	}
	// every process finished and collected before the return, also when the run ends with a fatal error
	for _, r := range recs {
		if r.Phase != "start" {
			continue
		}
		e, ok := ends[r.Pid]
		if !ok {
			return "C20/tool-still-running-at-return", fmt.Sprintf("pid %d (%s/%s) has no end record\n%s", r.Pid, r.Tool, r.ID, c20Show(c)), stats
		}
		if e.End > returned.UnixNano() {
			return "C20/tool-still-running-at-return", fmt.Sprintf("pid %d (%s/%s) ended after LintFiles returned\n%s", r.Pid, r.Tool, r.ID, c20Show(c)), stats
		}
		if cl, err := os.ReadFile(fmt.Sprintf("/proc/%d/cmdline", r.Pid)); err == nil && strings.Contains(string(cl), "fake-") && syscall.Kill(r.Pid, 0) == nil {
			return "C20/tool-process-not-collected", fmt.Sprintf("pid %d (%s/%s) still exists after LintFiles returned\n%s", r.Pid, r.Tool, r.ID, c20Show(c)), stats
		}
	}
	mu.Lock()
	evs := append([]c20Event(nil), events...)
	mu.Unlock()
	nrun, ncb := 0, 0
	for _, e := range evs {
		switch e.point {
		case "run-enter":
			nrun++
		case "callback-done":
			ncb++
			if e.at.After(returned) {
				return "C20/callback-after-return", c20Show(c), stats
			}
		}
	}
	if nrun != ncb {
		return "C20/callback-missing-at-return", fmt.Sprintf("%d tool runs requested, %d callbacks finished at return\n%s", nrun, ncb, c20Show(c)), stats
	}
	// concurrency bound (always): from the schedule trace and from the tool log
	ncpu := runtime.NumCPU()
	mu.Lock()
	evs = append([]c20Event(nil), events...)
	mu.Unlock()
	cur, maxCur := 0, 0
	for _, e := range evs {
		switch e.point {
		case "acquired":
			cur++
		case "process-exit":
			cur--
		}
		if cur > maxCur {
			maxCur = cur
		}
	}
	if maxCur > ncpu {
		return "C20/more-tool-processes-than-cpus", fmt.Sprintf("schedule trace: %d tool executions between acquire and process exit at one instant, NumCPU=%d\n%s", maxCur, ncpu, c20Show(c)), stats
	}
	type iv struct {
		t     int64
		delta int
	}
	var ivs []iv
	for _, r := range recs {
		if r.Phase == "start" {
			if e, ok := ends[r.Pid]; ok {
				ivs = append(ivs, iv{r.Start, +1}, iv{e.End, -1})
			}
		}
	}
	sort.Slice(ivs, func(i, j int) bool {
		if ivs[i].t != ivs[j].t {
			return ivs[i].t < ivs[j].t
		}
		return ivs[i].delta < ivs[j].delta
	})
	cur, over := 0, 0
	for _, x := range ivs {
		cur += x.delta
		if cur > over {
			over = cur
		}
	}
	stats["max-overlap"] = over
	if over > ncpu {
		return "C20/more-tool-processes-than-cpus", fmt.Sprintf("tool log: %d tool processes alive at one instant, NumCPU=%d\n%s", over, ncpu, c20Show(c)), stats
	}
	return "", "", stats
}

// c20Current is the case the process-wide schedule hook reports to.
var c20Current struct {
	sync.Mutex
	record func(point string)
	delays map[string]int
}

func init() {
	al.VerifSchedHook = func(point string) {
		c20Current.Lock()
		rec, d := c20Current.record, c20Current.delays[point]
		c20Current.Unlock()
		if rec != nil {
			rec(point)
		}
		if d > 0 {
			time.Sleep(time.Duration(d) * time.Microsecond)
		}
	}
}

func init() {
	hx.RegisterReplayer("C20/world", func(r *hx.Run, data json.RawMessage) {
		var c c20Case
		if err := json.Unmarshal(data, &c); err != nil {
			panic(err)
		}
		for i := 0; i < 3; i++ {
			if k, m, _ := checkToolIntegration(&c); k != "" {
				r.Report(k, m, "C20/world", &c)
				return
			}
		}
	})
}

func TestC20(t *testing.T) {
	if _, err := os.Stat(fakeBin); err != nil {
		t.Fatalf("fakecmd not built: %v", err)
	}
	hx.Main(t, "C20", func(r *hx.Run) {
		r.Rule = fmt.Sprintf("worlds with 1-6 files x 1-4 jobs x 0-6 run steps; the effective shell is decided at step / job default / workflow default / runner label level, where a defaults.run section may also exist without a shell and runs-on may be a literal label, a label list, an expression or a runner group without literal labels (bash, sh, 'bash -e {0}', 'sh -e {0}', pwsh, python, 'python {0}', cmd, windows runner); scripts carry a unique marker and 0-4 ${{ }} placeholders (also unterminated). A stand-in tool (harness/fakecmd, passed as -shellcheck / -pyflakes) logs pid, marker and stdin, sleeps for a generated latency and follows a generated plan (ok / k issues / exit!=0 silent / SIGKILL / SIGKILL after output / empty output / garbage). Seeded delays are injected at the verif schedule points of concurrentProcess. The test process is pinned with taskset (NumCPU=%d here). Oracle: reference shell-resolution model => exactly one invocation per bash/sh resp. python script with the length-preserving sanitised script (plus prologue) on stdin; one diagnostic per printed issue at the run: key; a planned failure <=> fatal error; running tools <= NumCPU at every instant (schedule trace and tool log); all tools ended, collected and called back before LintFiles returns. Non-trivial = >= 2 overlapping tool runs, or a planned failure, or a script with a placeholder; distinct = case hash.", runtime.NumCPU())
		r.Assumptions = []string{"time is only used as order between events stamped on this host; no assertion depends on a duration", "not asserted: a tool that cannot be found at start-up (the default configuration deliberately disables the rule then)", "the finished-before-return clause is asserted for every run, also those ending with a fatal error"}
		r.Extra["num_cpu"] = runtime.NumCPU()
		shells := []string{"", "", "", "bash", "sh", "bash -e {0}", "sh -e {0}", "pwsh", "python", "python {0}", "cmd"}
		r.Check(t, "worlds", hx.N(140, 1500), func(rt *rapid.T) {
			c := &c20Case{Delays: map[string]int{}}
			for _, p := range []string{"run-enter", "wg-added", "goroutine-start", "acquired", "process-exit", "released", "callback-done", "wait-enter"} {
				if rapid.IntRange(0, 3).Draw(rt, "hasdelay") == 0 {
					c.Delays[p] = rapid.SampledFrom([]int{50, 500, 3000}).Draw(rt, "delay")
				}
			}
			failing := rapid.IntRange(0, 3).Draw(rt, "withfailures") == 0
			latMode := rapid.SampledFrom([]string{"equal", "first-slowest", "straggler", "random"}).Draw(rt, "latmode")
			nf := rapid.IntRange(1, 6).Draw(rt, "nfiles")
			id := 0
			caseFplan := rapid.SampledFrom([]string{"exit-nonzero-silent", "kill", "kill-after-output", "empty", "garbage", "two-documents", "json-then-garbage"}).Draw(rt, "fplan")
			for fi := 0; fi < nf; fi++ {
				f := c20File{Shell: rapid.SampledFrom(shells).Draw(rt, "wshell"), Workdir: rapid.SampledFrom([]int{0, 0, 1, 2}).Draw(rt, "wworkdir")}
				for ji := 0; ji < rapid.IntRange(1, 4).Draw(rt, "njobs"); ji++ {
					j := c20Job{Shell: rapid.SampledFrom(shells).Draw(rt, "jshell"), Workdir: rapid.SampledFrom([]int{0, 0, 1, 2}).Draw(rt, "jworkdir"), Windows: rapid.IntRange(0, 4).Draw(rt, "win") == 0, RunsOn: rapid.SampledFrom([]int{0, 0, 0, 1, 2, 3, 4}).Draw(rt, "runsonform")}
					for si := 0; si < rapid.IntRange(0, 6).Draw(rt, "nsteps"); si++ {
						s := c20Step{ID: fmt.Sprintf("s%d", id), Shell: rapid.SampledFrom(shells).Draw(rt, "sshell"), Plan: "ok", Inline: rapid.IntRange(0, 5).Draw(rt, "inline") == 0}
						id++
						for k := 0; k < rapid.IntRange(1, 4).Draw(rt, "nlines"); k++ {
							s.Lines = append(s.Lines, rapid.SampledFrom([]string{"echo hello", "echo ${{ github.sha }}", "x=${{ matrix.os }}; echo \"$x ${{ github.event.inputs.name }}\"", "if ${{ contains(github.ref, 'x') }}; then echo y; fi", "echo ${{ unterminated", "print('${{ github.actor }}')", "make test", "echo ${{ a }}${{ b }}", "echo '}}' ${{ 'a}}b' }}"}).Draw(rt, "line"))
						}
						switch rapid.IntRange(0, 9).Draw(rt, "plan") {
						case 0, 1, 2:
							s.Plan, s.N = "issues", rapid.IntRange(1, 4).Draw(rt, "nissues")
						case 3:
							if failing {
								// one kind of failure per world (a second kind would make the run fatal anyway
								// and hide what the first one does)
								s.Plan = caseFplan
								s.N = rapid.IntRange(0, 2).Draw(rt, "fn")
							}
						case 4:
							s.Plan = rapid.SampledFrom([]string{"empty", "garbage", "two-documents", "json-then-garbage"}).Draw(rt, "softplan")
							s.N = rapid.IntRange(0, 2).Draw(rt, "softn")
							if !failing {
								// only harmless for pyflakes; make the step a python step
								s.Shell = "python"
							}
						}
						switch latMode {
						case "equal":
							s.LatMS = 8
						case "first-slowest":
							if id == 1 {
								s.LatMS = 40
							} else {
								s.LatMS = 2
							}
						case "straggler":
							if rapid.IntRange(0, 7).Draw(rt, "strag") == 0 {
								s.LatMS = 40
							}
						default:
							s.LatMS = rapid.IntRange(0, 25).Draw(rt, "lat")
						}
						j.Steps = append(j.Steps, s)
					}
					f.Jobs = append(f.Jobs, j)
				}
				c.Files = append(c.Files, f)
			}
			r.LastCase("C20/world", c)
			k, m, st := checkToolIntegration(c)
			r.Eval()
			_, expects := c.render()
			anyFail, anyPH := false, false
			for _, e := range expects {
				if e.fails {
					anyFail = true
				}
				if e.placeholder {
					anyPH = true
				}
				r.Class("tool/" + e.tool)
			}
			for _, f := range c.Files {
				for _, j := range f.Jobs {
					for _, s := range j.Steps {
						lvl := "runner-default"
						switch {
						case s.Shell != "":
							lvl = "step"
						case j.Shell != "":
							lvl = "job-default"
						case f.Shell != "":
							lvl = "workflow-default"
						}
						r.Class("shell-resolved-at/" + lvl)
						r.Class("plan/" + s.Plan)
					}
				}
			}
			if st["max-overlap"] >= 2 || anyFail || anyPH {
				b, _ := json.Marshal(c)
				r.NT(string(b))
			}
			r.Class(fmt.Sprintf("max-overlap=%d", min(st["max-overlap"], 8)))
			if anyFail {
				r.Class("with-planned-failure")
			}
			files, _ := c.render()
			r.Sample(map[string]any{"files": files, "delays_us": c.Delays})
			if k != "" {
				r.Fail(rt, k, m, "C20/world", c)
			}
		})
	})
}
