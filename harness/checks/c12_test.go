package checks

import (
	"encoding/json"
	"fmt"
	"os"
	"sort"
	"strings"
	"testing"

	"pgregory.net/rapid"
	"verifharness/hx"
	"verifharness/wf"
	ye "verifharness/yamlemit"
)

// ---- C12: context and special-function availability follows GitHub's table --------------------------

type availRow struct {
	ctx map[string]bool
	fn  map[string]bool
}

// loadAvailTable parses the pinned transcription of GitHub's "Context availability" table.
func loadAvailTable(path string) (map[string]*availRow, error) {
	b, err := os.ReadFile(path)
	if err != nil {
		return nil, err
	}
	tbl := map[string]*availRow{}
	for _, ln := range strings.Split(string(b), "\n") {
		cells := strings.Split(ln, "|")
		if len(cells) < 5 || !strings.Contains(cells[1], "`") || strings.Contains(cells[1], "Workflow key") {
			continue
		}
		key := strings.Trim(strings.TrimSpace(cells[1]), "`")
		row := &availRow{ctx: map[string]bool{}, fn: map[string]bool{}}
		for _, c := range strings.Split(strings.Trim(strings.TrimSpace(cells[2]), "`"), ",") {
			row.ctx[strings.ToLower(strings.TrimSpace(c))] = true
		}
		if f := strings.TrimSpace(cells[3]); f != "None" {
			for _, c := range strings.Split(strings.Trim(f, "`"), ",") {
				row.fn[strings.ToLower(strings.TrimSpace(c))] = true
			}
		}
		tbl[key] = row
	}
	return tbl, nil
}

// availKeyFor maps a leaf's workflow key path to the table key that governs it: the longest table
// key that is a segment-wise prefix of the path ("" when none).
func availKeyFor(tbl map[string]*availRow, path string) string {
	segs := strings.Split(path, ".")
	for n := len(segs); n > 0; n-- {
		k := strings.Join(segs[:n], ".")
		if _, ok := tbl[k]; ok {
			return k
		}
	}
	return ""
}

var c12Contexts = []string{"github", "env", "vars", "job", "jobs", "steps", "runner", "secrets", "strategy", "matrix", "needs", "inputs"}
var c12Funcs = []string{"always", "cancelled", "failure", "success", "hashFiles"}

type c12Case struct {
	YAML   string `json:"yaml"`
	Path   string `json:"path"`
	Key    string `json:"table_key"`
	Name   string `json:"name"`
	IsFunc bool   `json:"is_func"`
	Embed  string `json:"embedding"`
	Line   int    `json:"line"`
	Allow  bool   `json:"allowed_by_table"`
}

func checkAvail(c *c12Case) (key, msg string) {
	ds, err, pan, st := lintSafe([]byte(c.YAML))
	if pan != nil {
		return "C12/panic", fmt.Sprintf("panic %v at %s\n%s", pan, st, c.YAML)
	}
	if err != nil {
		return "C12/linter-fatal", fmt.Sprintf("%v\n%s", err, c.YAML)
	}
	rejected := false
	lname := strings.ToLower(c.Name)
	for _, d := range ds {
		if d.Line != c.Line || d.Kind != "expression" {
			continue
		}
		lm := strings.ToLower(d.Msg)
		if c.IsFunc {
			if strings.HasPrefix(lm, fmt.Sprintf("calling function %q is not allowed here", lname)) {
				rejected = true
			}
		} else {
			if strings.HasPrefix(lm, fmt.Sprintf("context %q is not allowed here", lname)) {
				rejected = true
			}
			if lname == "jobs" && strings.HasPrefix(lm, `undefined variable "jobs"`) {
				rejected = true
			}
		}
	}
	what := "context"
	if c.IsFunc {
		what = "function"
	}
	if c.Allow && rejected {
		return fmt.Sprintf("C12/allowed-%s-rejected:%s@%s", what, lname, c.Key), fmt.Sprintf("%s %s is listed for table key %q (leaf %s, embedding %s) but reported as not allowed: %v\n%s", what, c.Name, c.Key, c.Path, c.Embed, diagStrings(ds), c.YAML)
	}
	if !c.Allow && !rejected {
		k := c.Key
		if k == "" {
			k = "<absent:" + c.Path + ">"
		}
		return fmt.Sprintf("C12/disallowed-%s-accepted:%s@%s", what, lname, k), fmt.Sprintf("%s %s is NOT listed for table key %q (leaf %s, embedding %s) but no 'not allowed' diagnostic on line %d: %v\n%s", what, c.Name, c.Key, c.Path, c.Embed, c.Line, diagStrings(ds), c.YAML)
	}
	return "", ""
}

func init() {
	hx.RegisterReplayer("C12/avail", func(r *hx.Run, data json.RawMessage) {
		var c c12Case
		if err := json.Unmarshal(data, &c); err != nil {
			panic(err)
		}
		if k, m := checkAvail(&c); k != "" {
			r.Report(k, m, "C12/avail", &c)
		}
	})
}

// embeddings: %s is the probe term (X.foo or f()); lone = usable where a single ${{ }} is required
var c12Embeds = []struct {
	name, tmpl string
	lone       bool
}{
	{"bare", "${{ %s }}", true},
	{"comparison", "${{ %s == 'a' }}", true},
	{"function-argument", "${{ format('{0}', %s) }}", true},
	{"nested-or-in-and", "${{ (%s || 'x') && 'y' }}", true},
	{"negated-or-in-or", "${{ !(%s || 'x') || 'y' }}", true},
	{"right-of-and", "${{ true && (false || %s) }}", true},
	{"index-position", "${{ fromJSON('[1]')[%s] }}", true},
	{"negation", "${{ !%s }}", true},
	{"right-of-equality-null-left", "${{ null == %s }}", true},
	{"right-of-inequality-unknown-left", "${{ fromJSON('null') != %s }}", true},
	{"left-of-equality", "${{ %s == fromJSON('null') }}", true},
	{"both-sides-of-and", "${{ %[1]s && %[1]s }}", true},
	{"second-placeholder", "a ${{ 'x' }} b ${{ %s }}", false},
	{"after-placeholder-and-apostrophe", "${{ 'x' }}'s build with ${{ %s }}", false},
	{"between-apostrophes", "${{ 'x' }}'${{ %s }} isn't", false},
	{"after-placeholder-and-quote-brace-soup", "${{ 'x' }}\"{(['${{ 'y' }}}}${{ %s }}", false},
	{"after-text", "prefix-%s", false}, // replaced below: text before one placeholder
}

func TestC12(t *testing.T) {
	hx.Main(t, "C12", func(r *hx.Run) {
		tbl, err := loadAvailTable("testdata/context_availability_table.md")
		if err != nil || len(tbl) < 30 {
			t.Fatalf("availability table: %v (%d rows)", err, len(tbl))
		}
		// cross-check the pinned transcription with the repository's copy of the official page
		if b, err := os.ReadFile("/repo/scripts/generate-availability/testdata/ok.md"); err == nil {
			pinned, _ := os.ReadFile("testdata/context_availability_table.md")
			r.Extra["pinned_table_equals_repo_copy_of_official_page"] = strings.Contains(string(b), strings.TrimSpace(string(pinned)))
		}
		r.Rule = "complete enumeration: every template leaf path of the workflow-syntax model (found in generated clean workflows) x {12 context names, 5 special functions} x embeddings {bare, comparison on either side (also with a null / unknown other side), function argument, nested ||/&&/! forms, index position, negation, second placeholder, after text, after a placeholder that is directly followed by an apostrophe / quote / bracket; upper-case spelling alternated}; every leaf class is then revisited in up to 5 (thorough 11) other generated workflows with shuffled key order and every 7th probe (thorough: 3 further complete instances first). The governing table key is the longest table key that is a prefix of the leaf's key path (none => nothing allowed). Oracle: pinned transcription of GitHub's context availability table; 'not allowed' diagnostic on the probe line <=> not listed. Every pair is non-trivial; distinct = (leaf path + configuration, name, embedding)."
		r.Assumptions = []string{"pinned table: harness/checks/testdata/context_availability_table.md (copied from the official page as shipped in scripts/generate-availability/testdata/ok.md)", "for `jobs`, an `undefined variable \"jobs\"` diagnostic counts as the rejection", "not asserted: a lone expression standing for a whole mapping that the table lists entry-wise (container.env / services.<id>.env given as one expression)"}
		done := map[string]bool{}
		instances := map[int]int{}
		keysSeen := map[string]bool{}
		pairs := int64(0)
		nviol := 0
		r.Check(t, "enumerate", hx.N(120, 1200), func(rt *rapid.T) {
			if nviol > 8 {
				return
			}
			g := &wf.G{T: rt, Rare: true}
			w := g.Workflow()
			if rapid.IntRange(0, 3).Draw(rt, "shufflekeys") > 0 {
				g.ShuffleKeys(w.Root)
			}
			lay := g.Layout()
			src := ye.Emit(w.Root, lay)
			if ds, err := lint(src); err != nil || len(ds) > 0 {
				r.Discard("generated workflow not clean")
				return
			}
			seqIndex := map[*ye.Node]int{}
			w.Root.Walk(func(n, p *ye.Node, idx int, isKey bool) {
				if p != nil && p.Kind == ye.Seq {
					seqIndex[n] = idx
				}
			})
			for _, lf := range scalarLeaves(w.Root) {
				info := wf.LeafOf(lf)
				if !info.Template || info.Exempt != "" {
					continue
				}
				cls := info.Path
				if info.Config != "" {
					cls += "[" + info.Config + "]"
				}
				if i, ok := seqIndex[lf]; ok && i > 0 {
					cls += fmt.Sprintf("#%d", min(i, 3)) // later elements of a sequence are positions of their own
				}
				// instance 0 of a leaf class gets the complete probe set; the class is then revisited in
				// other generated workflows (other key order, other surroundings) with every 7th probe
				// (thorough: 3 more complete instances, then sparse ones)
				n := 0
				for done[fmt.Sprintf("%s#%d", cls, n)] {
					n++
				}
				if n >= hx.N(6, 12) {
					continue
				}
				done[fmt.Sprintf("%s#%d", cls, n)] = true
				sparse := n >= hx.N(1, 4)
				instances[n]++
				key := availKeyFor(tbl, info.Path)
				keysSeen[key] = true
				lone := info.Typed != ""
				oldVal, oldStyle, oldRaw := lf.Val, lf.Style, lf.Raw
				probe := func(name string, isFunc bool, allow bool) {
					for ei, e := range c12Embeds {
						if lone && !e.lone {
							continue
						}
						if sparse && (ei+len(name)+n)%7 != 0 {
							continue
						}
						spelled := name
						if (ei+len(name))%3 == 0 {
							spelled = strings.ToUpper(name)
						}
						term := spelled + ".foo"
						if isFunc {
							term = spelled + "()"
							if strings.EqualFold(name, "hashFiles") {
								term = spelled + "('a')"
							}
						}
						val := fmt.Sprintf(e.tmpl, term)
						if e.name == "after-text" {
							val = "prefix ${{ " + term + " }} suffix"
						}
						lf.Val, lf.Raw, lf.Style = val, "", ye.Auto
						msrc := ye.Emit(w.Root, lay)
						c := &c12Case{YAML: msrc, Path: cls, Key: key, Name: spelled, IsFunc: isFunc, Embed: e.name, Line: lf.Line, Allow: allow}
						r.Eval()
						r.NTSeq(1)
						pairs++
						if pairs%997 == 1 {
							r.Sample(map[string]any{"leaf": cls, "table_key": key, "name": spelled, "embedding": e.name, "allowed": allow, "value": val})
						}
						if k, m := checkAvail(c); k != "" {
							if r.Report(k, m, "C12/avail", c) {
								nviol++
							}
						}
					}
				}
				row := tbl[key]
				for _, cx := range c12Contexts {
					probe(cx, false, row != nil && row.ctx[cx])
				}
				for _, f := range c12Funcs {
					probe(f, true, row != nil && row.fn[strings.ToLower(f)])
				}
				lf.Val, lf.Style, lf.Raw = oldVal, oldStyle, oldRaw
			}
		})
		var paths, keys []string
		for p := range done {
			if strings.HasSuffix(p, "#0") {
				paths = append(paths, strings.TrimSuffix(p, "#0"))
			}
		}
		r.Extra["leaf_classes_by_instance_number"] = fmt.Sprint(instances)
		for k := range keysSeen {
			keys = append(keys, k)
		}
		sort.Strings(paths)
		sort.Strings(keys)
		r.Extra["leaf_paths_enumerated"] = paths
		r.Extra["table_keys_reached"] = keys
		var missing []string
		for k := range tbl {
			if !keysSeen[k] {
				missing = append(missing, k)
			}
		}
		sort.Strings(missing)
		r.Extra["table_keys_not_reached"] = missing
		r.Exhaustive = true
	})
}
