package checks

import (
	"encoding/json"
	"fmt"
	"os"
	"path/filepath"
	"sort"
	"strings"
	"testing"

	"pgregory.net/rapid"
	"verifharness/hx"
	"verifharness/wf"
	ye "verifharness/yamlemit"
)

// ---- C07: diagnostics point at the exact source position --------------------------------------------

type c07Exact struct {
	Leaf   string `json:"leaf,omitempty"`
	Quoted bool   `json:"quoted,omitempty"`
	YAML   string `json:"yaml"`
	Line   int    `json:"line"`
	Col    int    `json:"col"`
	MsgSub string `json:"msg_contains"`
	What   string `json:"what"`
}

func boundsViolation(src string, ds []Diag) (string, string) {
	n := countLines(src)
	for _, d := range ds {
		if d.Kind == "syntax-check" && strings.HasPrefix(d.Msg, "could not parse as YAML") {
			continue
		}
		if d.Line < 1 || d.Line > n || d.Col < 1 {
			key := "C07/position-out-of-bounds"
			if d.Line > n && strings.Contains(src, `\n`) {
				key = "C07/line-past-eof-escaped-newlines"
			}
			return key, fmt.Sprintf("diagnostic %s lies outside the file (%d lines)\n%s", d, n, src)
		}
	}
	return "", ""
}

func checkExactPosition(c *c07Exact) (key, msg string) {
	ds, err, pan, st := lintSafe([]byte(c.YAML))
	if pan != nil {
		return "C07/panic", fmt.Sprintf("panic %v at %s\n%s", pan, st, c.YAML)
	}
	if err != nil {
		return "C07/linter-fatal", fmt.Sprintf("%v\n%s", err, c.YAML)
	}
	if k, m := boundsViolation(c.YAML, ds); k != "" {
		return k, m
	}
	if c.What == "bounds" {
		return "", ""
	}
	var cands []Diag
	for _, d := range ds {
		if strings.Contains(d.Msg, c.MsgSub) {
			cands = append(cands, d)
			if d.Line == c.Line && d.Col == c.Col {
				return "", ""
			}
		}
	}
	if len(cands) == 0 {
		return "harness/c07-planted-construct-not-diagnosed", fmt.Sprintf("%s: no diagnostic containing %q; got %v\n%s", c.What, c.MsgSub, diagStrings(ds), c.YAML)
	}
	key = "C07/wrong-position:" + c.What
	oneLeft := false
	for _, d := range cands {
		if d.Line == c.Line && d.Col == c.Col-1 {
			oneLeft = true
		}
	}
	if c.Quoted && strings.HasPrefix(c.Leaf, "jobs.<job_id>.strategy.matrix") && oneLeft {
		key = "C07/quoted-matrix-value-column-off-by-one"
	}
	if strings.HasSuffix(c.What, "(if-without-placeholder)(quoted)") && oneLeft {
		key = "C07/quoted-if-without-placeholder-column-off-by-one"
	}
	return key, fmt.Sprintf("%s: offending token is at %d:%d but reported at %v\n%s", c.What, c.Line, c.Col, diagStrings(cands), c.YAML)
}

// ---- shift relation ---------------------------------------------------------------------------------

type c07Shift struct {
	A, B string `json:"-"`
	YA   string `json:"a"`
	YB   string `json:"b"`
	// per node of the tree: position in A and in B (only keys and scalars)
	Nodes []c07Node `json:"nodes"`
}

type c07Node struct {
	LA, CA, EA int // line, col, endcol in A
	LB, CB     int
	KA, KB     int // column of the first content character (after an opening quote) in A and B
}

func checkShift(c *c07Shift) (key, msg string, attributed int) {
	da, err, pan, st := lintSafe([]byte(c.YA))
	if pan != nil || err != nil {
		return "C07/panic-or-fatal", fmt.Sprintf("%v %v %s\n%s", pan, err, st, c.YA), 0
	}
	db, err, pan, st := lintSafe([]byte(c.YB))
	if pan != nil || err != nil {
		return "C07/panic-or-fatal", fmt.Sprintf("%v %v %s\n%s", pan, err, st, c.YB), 0
	}
	if k, m := boundsViolation(c.YA, da); k != "" {
		return k, m, 0
	}
	if k, m := boundsViolation(c.YB, db); k != "" {
		return k, m, 0
	}
	have := map[string]int{}
	for _, d := range db {
		have[fmt.Sprintf("%d:%d|%s|%s", d.Line, d.Col, d.Kind, rePosInMsg.ReplaceAllString(d.Msg, "P"))]++
	}
	for _, d := range da {
		// attribute to the innermost single-line node whose span contains the position
		best := -1
		for i, n := range c.Nodes {
			if n.LA == d.Line && n.CA <= d.Col && d.Col <= n.EA {
				if best < 0 || n.CA > c.Nodes[best].CA {
					best = i
				}
			}
		}
		if best < 0 {
			continue
		}
		attributed++
		n := c.Nodes[best]
		// a report on the first character of a scalar is either about the value as a whole (it stays
		// at the scalar's start, i.e. at the quote) or about its first content character; inside the
		// content the offset from the content start is kept
		var cands []int
		switch {
		case n.KA == 0: // no quoting information (old replay files)
			cands = []int{n.CB + (d.Col - n.CA)}
		case d.Col == n.CA && n.KA == n.CA:
			cands = []int{n.CB, n.KB}
		case d.Col == n.CA:
			cands = []int{n.CB}
		default:
			cands = []int{n.KB + (d.Col - n.KA)}
		}
		want := ""
		for _, cc := range cands {
			w := fmt.Sprintf("%d:%d|%s|%s", n.LB, cc, d.Kind, rePosInMsg.ReplaceAllString(d.Msg, "P"))
			if want == "" || have[w] > 0 {
				want = w
			}
		}
		if have[want] == 0 {
			return "C07/report-does-not-move-with-its-token", fmt.Sprintf("diagnostic %s sits on the token at %d:%d (layout A); the same token is at %d:%d in layout B but no identical diagnostic at %d:%d there.\nB diagnostics: %v\n--- A\n%s\n--- B\n%s", d, n.LA, n.CA, n.LB, n.CB, n.LB, n.CB+(d.Col-n.CA), diagStrings(db), c.YA, c.YB), attributed
		}
		have[want]--
	}
	if len(da) != len(db) {
		return "C07/diagnostic-count-depends-on-layout", fmt.Sprintf("%d diagnostics in layout A, %d in layout B\nA: %v\nB: %v\n--- A\n%s\n--- B\n%s", len(da), len(db), diagStrings(da), diagStrings(db), c.YA, c.YB), attributed
	}
	return "", "", attributed
}

type c07Lines struct {
	YAML string `json:"yaml"`
	K    int    `json:"k"`
}

// line-shift on arbitrary text: k comment lines on top move every report by k lines
func checkLineShift(c *c07Lines) (key, msg string, n int) {
	da, err, pan, st := lintSafe([]byte(c.YAML))
	if pan != nil || err != nil {
		return "", "", 0 // crashes belong to C01
	}
	_ = st
	shifted := strings.Repeat("# inserted\n", c.K) + c.YAML
	db, err, pan, _ := lintSafe([]byte(shifted))
	if pan != nil || err != nil {
		return "", "", 0
	}
	if k, m := boundsViolation(c.YAML, da); k != "" {
		return k, m, 0
	}
	if len(da) != len(db) {
		return "C07/diagnostic-count-depends-on-layout", fmt.Sprintf("%d vs %d diagnostics after inserting %d comment lines on top\n%v\n%v\n%s", len(da), len(db), c.K, diagStrings(da), diagStrings(db), c.YAML), 0
	}
	for i := range da {
		a, b := da[i], db[i]
		if strings.HasPrefix(a.Msg, "could not parse as YAML") || a.Msg == "workflow is empty" {
			continue // not about a token of the file
		}
		if b.Line != a.Line+c.K || b.Col != a.Col || rePosInMsg.ReplaceAllString(a.Msg, "P") != rePosInMsg.ReplaceAllString(b.Msg, "P") {
			return "C07/report-does-not-move-with-inserted-lines", fmt.Sprintf("after inserting %d lines on top, %s became %s\n%s", c.K, a, b, c.YAML), len(da)
		}
	}
	return "", "", len(da)
}

func init() {
	hx.RegisterReplayer("C07/exact", func(r *hx.Run, data json.RawMessage) {
		var c c07Exact
		if err := json.Unmarshal(data, &c); err != nil {
			panic(err)
		}
		if k, m := checkExactPosition(&c); k != "" {
			r.Report(k, m, "C07/exact", &c)
		}
	})
	hx.RegisterReplayer("C07/shift", func(r *hx.Run, data json.RawMessage) {
		var c c07Shift
		if err := json.Unmarshal(data, &c); err != nil {
			panic(err)
		}
		if k, m, _ := checkShift(&c); k != "" {
			r.Report(k, m, "C07/shift", &c)
		}
	})
	hx.RegisterReplayer("C07/lines", func(r *hx.Run, data json.RawMessage) {
		var c c07Lines
		if err := json.Unmarshal(data, &c); err != nil {
			panic(err)
		}
		if k, m, _ := checkLineShift(&c); k != "" {
			r.Report(k, m, "C07/lines", &c)
		}
	})
}

// planted expression constructs: text with a marker @ just before the offending token
var c07Exprs = []struct{ what, text, msg string }{
	{"lexer-unexpected-character", "${{ github.sha @? }}", "got unexpected character '?'"},
	{"lexer-unexpected-character", "${{ github.sha == @# }}", "got unexpected character '#'"},
	{"parser-unexpected-token", "${{ github.sha @github.ref }}", "parser did not reach end of input"},
	{"parser-unexpected-token", "${{ github.sha == @) }}", "unexpected token \")\""},
	{"parser-unexpected-end", "${{ github.sha == @}}", "unexpected end of input"},
	{"undefined-variable", "${{ @zzzctx }}", "undefined variable \"zzzctx\""},
	{"undefined-variable", "${{ github.sha == @zzzctx.foo }}", "undefined variable \"zzzctx\""},
	{"undefined-function", "${{ @zzzfunc(github.sha) }}", "undefined function \"zzzfunc\""},
	{"undefined-function", "${{ format('{0}', @zzzfunc()) }}", "undefined function \"zzzfunc\""},
	{"wrong-argument-count", "${{ github.sha && @startsWith('a') }}", "number of arguments is wrong"},
	{"argument-not-assignable", "${{ startsWith(@github.event, 'a') }}", "1st argument of function call is not assignable"},
	{"argument-not-assignable", "${{ startsWith(github.sha, @github.event) }}", "2nd argument of function call is not assignable"},
	{"argument-not-assignable", "${{ hashFiles('a.lock', @github.event) }}", "2nd argument of function call is not assignable"},
	{"argument-not-assignable", "${{ hashFiles('a', 'b', @github.event) }}", "3rd argument of function call is not assignable"},
	{"argument-not-assignable", "${{ contains(github.sha, 'x') && endsWith('a', @github.event) }}", "2nd argument of function call is not assignable"},
	{"comparison-of-unlike-types", "${{ github.sha == 'a' && @1 < null }}", "cannot be compared to"},
	{"comparison-of-unlike-types", "${{ @!github.event.number < 1 }}", "cannot be compared to"},
	{"comparison-of-unlike-types", "${{ @!!github.event.number < 1 }}", "cannot be compared to"},
	{"comparison-of-unlike-types", "${{ github.sha == 'a' || @! !github.event.number <= 1 }}", "cannot be compared to"},
	{"comparison-of-unlike-types", "${{ @!!!github.sha > 1 }}", "cannot be compared to"},
	{"comparison-of-unlike-types", "${{ @!! contains('a', 'b') < 1 && true }}", "cannot be compared to"},
	{"comparison-of-unlike-types", "${{ @contains('a', 'b') >= 1 }}", "cannot be compared to"},
	{"comparison-of-unlike-types", "${{ true && @github.event.number < !!github.sha }}", "cannot be compared to"},
	{"undefined-property", "${{ !!@github.zznosuch }}", "property \"zznosuch\" is not defined"},
	{"undefined-variable", "${{ ! ! !@zzzctx }}", "undefined variable \"zzzctx\""},
	{"undefined-property", "${{ github.sha || @github.zznosuch }}", "property \"zznosuch\" is not defined"},
	{"object-evaluated-in-template", "@${{ fromJSON('{}') }}", "object, array, and null values should not be evaluated in template"},
	{"object-evaluated-in-template", "${{ 'x' }} and @${{ fromJSON('[1]') }}", "object, array, and null values should not be evaluated in template"},
}

func plant(text string) (string, int) {
	i := strings.Index(text, "@")
	return text[:i] + text[i+1:], i
}

func TestC07(t *testing.T) {
	hx.Main(t, "C07", func(r *hx.Run) {
		r.Rule = "(a) exact positions: a diagnosed construct with an unambiguous offending token (lexer garbage character, parser unexpected token / end, undefined variable / function / property, wrong argument count, unassignable 1st / 2nd / variadic argument, comparison of unlike types, unknown key, invalid shell / permission / event / cron / glob value, `if:` without ${{ }}) is planted into a generated clean workflow by the position-recording emitter at a random leaf, after a random amount of text and 0-3 well-formed placeholders, in plain / single / double quoted style, block or flow, any indentation; at typed positions (bool / number / whole-section values) as a lone placeholder with 0-3 spaces around it inside the quotes; reported line:column must equal the recorded one. (b) shift relation: a workflow with 1-4 seeded errors of many rules is rendered twice from the same tree with different layouts; every diagnostic sitting on a key/scalar must reappear at that token's new position with the same inner offset; plus repository testdata/err files with k comment lines inserted on top. (c) bounds 1<=line<=#lines, column>=1 on everything, including double-quoted scalars with \\n escapes. Non-trivial: (a) construct at column > 1 with preceding placeholder or quoting; (b) pair whose layouts differ; distinct = text hash."
		r.Assumptions = []string{"only single-line ASCII scalars without escape sequences are used for (a) and (b), as the statement restricts", "multi-line / escaped scalars only for the bounds clause"}
		// (a) exact positions, expressions
		r.Check(t, "exact-expression", hx.N(2500, 60000), func(rt *rapid.T) {
			g := &wf.G{T: rt, Rare: rapid.Bool().Draw(rt, "rare")}
			w := g.Workflow()
			if rapid.Bool().Draw(rt, "shufflekeys") {
				g.ShuffleKeys(w.Root)
			}
			var cand []*ye.Node
			for _, lf := range scalarLeaves(w.Root) {
				l := wf.LeafOf(lf)
				if l.Template && l.Exempt == "" && l.Typed == "" {
					cand = append(cand, lf)
				}
			}
			if len(cand) == 0 {
				return
			}
			lf := cand[rapid.IntRange(0, len(cand)-1).Draw(rt, "leaf")]
			info := wf.LeafOf(lf)
			e := rapid.SampledFrom(c07Exprs).Draw(rt, "expr")
			text, off := plant(e.text)
			pre := ""
			npl := rapid.IntRange(0, 3).Draw(rt, "npl")
			for i := 0; i < npl; i++ {
				pre += rapid.SampledFrom([]string{"a", "text ", "x-", ""}).Draw(rt, "pretext") + rapid.SampledFrom([]string{"${{ 'ok' }}", "${{ 1 }}", "${{ true }} "}).Draw(rt, "prepl")
			}
			pre += rapid.SampledFrom([]string{"", "v", "some text ", "::"}).Draw(rt, "pretext2")
			bareLead := 0
			if strings.HasSuffix(info.Path, ".if") && strings.HasPrefix(text, "${{ ") && strings.Count(text, "${{") == 1 && e.what != "object-evaluated-in-template" && rapid.Bool().Draw(rt, "bareif") {
				// if: condition without ${{ }}
				pre = ""
				text = strings.TrimSuffix(strings.TrimPrefix(text, "${{ "), " }}")
				text = strings.TrimSuffix(text, "}}")
				off -= 4
				if strings.TrimSpace(text) == "" || off < 0 || e.what == "parser-unexpected-end" {
					return // end of input is not a token of the file once the closing }} is gone
				}
				// spaces between the opening quote and the first token of the condition
				bareLead = rapid.SampledFrom([]int{0, 0, 1, 2, 4}).Draw(rt, "barelead")
				pre = strings.Repeat(" ", bareLead)
			}
			if e.what == "object-evaluated-in-template" && pre == "" {
				pre = "x " // a lone expression is a typed position at some keys, not a template
			}
			val := pre + text
			style := rapid.SampledFrom([]ye.Style{ye.Auto, ye.Single, ye.Double}).Draw(rt, "style")
			if strings.Contains(val, "'") {
				style = ye.Double // a single-quoted (or auto-quoted) scalar would need '' escapes
			}
			if bareLead > 0 && style == ye.Auto {
				style = ye.Double // a plain scalar cannot start with spaces
			}
			if e.what == "object-evaluated-in-template" && strings.Contains(info.Path, ".strategy.matrix") {
				return // objects and arrays are legitimate matrix values
			}
			lf.Val, lf.Raw, lf.Style = val, "", style
			// copies of the same expression elsewhere in the file, spaced differently after "${{"
			type planted struct {
				n   *ye.Node
				off int
			}
			var copies []planted
			if strings.HasPrefix(text, "${{ ") && strings.Count(text, "${{") == 1 && strings.Contains(val, "${{") && e.what != "object-evaluated-in-template" {
				for i := 0; i < rapid.IntRange(0, 2).Draw(rt, "ncopies"); i++ {
					o := cand[rapid.IntRange(0, len(cand)-1).Draw(rt, "copyleaf")]
					if o == lf || strings.Contains(wf.LeafOf(o).Path, ".strategy.matrix") || strings.HasSuffix(wf.LeafOf(o).Path, ".if") {
						continue
					}
					dup := false
					for _, cp := range copies {
						if cp.n == o {
							dup = true
						}
					}
					if dup {
						continue
					}
					extra := rapid.SampledFrom([]string{"", " ", "   ", "\t"}).Draw(rt, "innerws")
					t2 := "${{ " + extra + text[4:]
					o.Val, o.Raw, o.Style = t2, "", ye.Double
					if strings.Contains(t2, "\t") {
						o.Val = strings.ReplaceAll(t2, "\t", "  ")
						extra = "  "
					}
					copies = append(copies, planted{o, off + len(extra)})
				}
			}
			lay := g.Layout()
			src := ye.Emit(w.Root, lay)
			c := &c07Exact{YAML: src, Line: lf.Line, Col: lf.ContentCol + len(pre) + off, MsgSub: e.msg, What: e.what, Leaf: info.Path, Quoted: lf.ContentCol != lf.Col}
			if len(copies) > 0 {
				// the same construct was also planted at other leaves (with other spacing inside the
				// placeholder): every copy must be reported at its own token
				for _, cp := range copies {
					c2 := &c07Exact{YAML: src, Line: cp.n.Line, Col: cp.n.ContentCol + cp.off, MsgSub: e.msg, What: e.what + "(repeated-in-file)", Leaf: wf.LeafOf(cp.n).Path, Quoted: cp.n.ContentCol != cp.n.Col}
					if k, m := checkExactPosition(c2); k != "" && !strings.HasPrefix(k, "harness/") {
						r.Fail(rt, k, m, "C07/exact", c2)
					}
				}
			}
			if strings.HasSuffix(info.Path, ".if") && !strings.Contains(val, "${{") {
				c.What += "(if-without-placeholder)"
				if lf.ContentCol != lf.Col {
					c.What += "(quoted)"
				}
			}
			r.Eval()
			if c.Col > 1 && (npl > 0 || lf.ContentCol != lf.Col) {
				r.NT(src)
			}
			q := "plain"
			if lf.ContentCol != lf.Col {
				q = "quoted"
			}
			r.Class("exact/" + e.what + "/" + q + fmt.Sprintf("/placeholders-before=%d", npl))
			r.Sample(map[string]any{"leaf": info.Path, "value": val, "expected": fmt.Sprintf("%d:%d", c.Line, c.Col)})
			if k, m := checkExactPosition(c); k != "" {
				r.Fail(rt, k, m, "C07/exact", c)
			}
		})
		// (a) exact positions, expressions standing for a typed value (bool / number / whole section):
		// the lone placeholder may be surrounded by spaces inside the quotes
		r.Check(t, "exact-expression-typed", hx.N(1200, 30000), func(rt *rapid.T) {
			g := &wf.G{T: rt, Rare: true}
			w := g.Workflow()
			if rapid.Bool().Draw(rt, "shufflekeys") {
				g.ShuffleKeys(w.Root)
			}
			var cand []*ye.Node
			for _, lf := range scalarLeaves(w.Root) {
				l := wf.LeafOf(lf)
				if l.Template && l.Exempt == "" && l.Typed != "" {
					cand = append(cand, lf)
				}
			}
			if len(cand) == 0 {
				r.Discard("no typed template leaf")
				return
			}
			lf := cand[rapid.IntRange(0, len(cand)-1).Draw(rt, "leaf")]
			info := wf.LeafOf(lf)
			var es []int
			for i, e := range c07Exprs {
				t, _ := plant(e.text)
				if strings.HasPrefix(t, "${{ ") && strings.Count(t, "${{") == 1 && e.what != "object-evaluated-in-template" {
					es = append(es, i)
				}
			}
			e := c07Exprs[es[rapid.IntRange(0, len(es)-1).Draw(rt, "expr")]]
			text, off := plant(e.text)
			lead := strings.Repeat(" ", rapid.SampledFrom([]int{0, 0, 1, 2, 3}).Draw(rt, "lead"))
			trail := strings.Repeat(" ", rapid.SampledFrom([]int{0, 0, 1, 2}).Draw(rt, "trail"))
			val := lead + text + trail
			style := rapid.SampledFrom([]ye.Style{ye.Single, ye.Double}).Draw(rt, "style")
			if strings.Contains(val, "'") {
				style = ye.Double
			}
			if lead == "" && trail == "" && rapid.Bool().Draw(rt, "plain") {
				style = ye.Auto
			}
			lf.Val, lf.Raw, lf.Style = val, "", style
			src := ye.Emit(w.Root, g.Layout())
			c := &c07Exact{YAML: src, Line: lf.Line, Col: lf.ContentCol + len(lead) + off, MsgSub: e.msg, What: e.what + "(typed-position)", Leaf: info.Path, Quoted: lf.ContentCol != lf.Col}
			r.Eval()
			if lead != "" {
				r.NT(src)
			}
			r.Class(fmt.Sprintf("exact-typed/%s/leading-spaces=%d", info.Typed, len(lead)))
			r.Sample(map[string]any{"leaf": info.Path, "value": val, "expected": fmt.Sprintf("%d:%d", c.Line, c.Col)})
			if k, m := checkExactPosition(c); k != "" {
				r.Fail(rt, k, m, "C07/exact", c)
			}
		})
		// (a) exact positions, keys and scalar values
		r.Check(t, "exact-keys-values", hx.N(1500, 40000), func(rt *rapid.T) {
			g := &wf.G{T: rt, Rare: true}
			w := g.Workflow()
			if rapid.Bool().Draw(rt, "shufflekeys") {
				g.ShuffleKeys(w.Root)
			}
			g.Styles(w.Root)
			lay := g.Layout()
			kind := rapid.SampledFrom([]string{"unknown-key", "shell", "permission-value", "permission-scope", "event", "cron", "glob", "needs", "runner-label", "runner-label-from-matrix", "input-type"}).Draw(rt, "kind")
			var target *ye.Node
			var msgSub string
			colOff := 0
			useContent := false
			pickLeaf := func(pred func(l *wf.Leaf) bool) *ye.Node {
				var cs []*ye.Node
				for _, lf := range scalarLeaves(w.Root) {
					if pred(wf.LeafOf(lf)) {
						cs = append(cs, lf)
					}
				}
				if len(cs) == 0 {
					return nil
				}
				return cs[rapid.IntRange(0, len(cs)-1).Draw(rt, "pick")]
			}
			setVal := func(n *ye.Node, v string) {
				n.Val, n.Raw = v, ""
				if n.Style == ye.Auto && rapid.Bool().Draw(rt, "q") {
					n.Style = rapid.SampledFrom([]ye.Style{ye.Single, ye.Double}).Draw(rt, "qs")
				}
			}
			switch kind {
			case "unknown-key":
				var maps []*ye.Node
				w.Root.Walk(func(n, p *ye.Node, idx int, isKey bool) {
					if n.Kind == ye.Map && wf.SectionOf(n) != nil && wf.SectionOf(n).Name != "schedule-item" {
						maps = append(maps, n)
					}
				})
				m := maps[rapid.IntRange(0, len(maps)-1).Draw(rt, "map")]
				idx := rapid.IntRange(0, len(m.Keys)).Draw(rt, "idx")
				fk, fv := ye.S("zzunknown"), ye.S("v")
				m.Keys = append(m.Keys[:idx:idx], append([]*ye.Node{fk}, m.Keys[idx:]...)...)
				m.Vals = append(m.Vals[:idx:idx], append([]*ye.Node{fv}, m.Vals[idx:]...)...)
				target, msgSub = fk, "\"zzunknown\""
			case "shell":
				target = pickLeaf(func(l *wf.Leaf) bool { return strings.HasSuffix(l.Path, ".shell") })
				if target != nil {
					setVal(target, "zsh-bad")
					msgSub = "shell name \"zsh-bad\" is invalid"
				}
			case "permission-value":
				target = pickLeaf(func(l *wf.Leaf) bool { return strings.HasSuffix(l.Path, "permissions.<scope>") })
				if target != nil {
					setVal(target, "bogus")
					msgSub = "\"bogus\" is invalid for permission"
				}
			case "permission-scope":
				target = pickLeaf(func(l *wf.Leaf) bool { return strings.HasSuffix(l.Path, "permissions") })
				if target != nil {
					setVal(target, "bogus-all")
					msgSub = "\"bogus-all\" is invalid for permission for all the scopes"
				}
			case "event":
				target = pickLeaf(func(l *wf.Leaf) bool { return l.Exempt == "event" })
				if target != nil {
					setVal(target, "bogus_event")
					msgSub = "unknown Webhook event \"bogus_event\""
				}
			case "cron":
				target = pickLeaf(func(l *wf.Leaf) bool { return l.Path == "on.schedule.cron" })
				if target != nil {
					setVal(target, "not a cron")
					msgSub = "invalid CRON format \"not a cron\""
				}
			case "glob":
				target = pickLeaf(func(l *wf.Leaf) bool {
					return strings.HasSuffix(l.Path, ".branches") || strings.HasSuffix(l.Path, ".paths") || strings.HasSuffix(l.Path, ".tags") || strings.HasSuffix(l.Path, "-ignore")
				})
				if target != nil {
					pre := rapid.SampledFrom([]string{"", "a", "rel/", "feature-"}).Draw(rt, "gpre")
					setVal(target, pre+"x+?y")
					msgSub = "unexpected character '?'"
					colOff, useContent = len(pre)+2, true
				}
			case "needs":
				target = pickLeaf(func(l *wf.Leaf) bool { return strings.HasSuffix(l.Path, ".needs") })
				if target != nil {
					// unknown job ids are reported at the job, not at the entry: use a duplicate-free invalid id format instead
					target = nil
				}
			case "runner-label":
				target = pickLeaf(func(l *wf.Leaf) bool { return l.Path == "jobs.<job_id>.runs-on" && l.Config == "" })
				if target != nil {
					setVal(target, "ubuntu-bogus")
					msgSub = "label \"ubuntu-bogus\" is unknown"
				}
			case "runner-label-from-matrix":
				// runs-on: ${{ matrix.os }}: the labels come from the row values or from include entries
				// and are reported where they are written
				jobs := w.Root.Get("jobs")
				if jobs != nil && jobs.Kind == ye.Map {
					bad := ye.S("ubuntu-bogus")
					m := ye.M()
					if rapid.Bool().Draw(rt, "viainclude") {
						m.Set("os", ye.L(ye.S("ubuntu-latest")))
						inc := ye.M()
						if rapid.Bool().Draw(rt, "otherkeyfirst") {
							inc.Set("arch", ye.S("x64"))
						}
						inc.Set("os", bad)
						inc.Flow = rapid.Bool().Draw(rt, "incflow")
						m.Set("include", ye.L(ye.M().Set("os", ye.S("macos-latest")), inc))
					} else {
						row := ye.L(ye.S("ubuntu-latest"), bad, ye.S("windows-latest"))
						row.Flow = rapid.Bool().Draw(rt, "rowflow")
						m.Set("os", row)
					}
					j := ye.M()
					j.Set("strategy", ye.M().Set("matrix", m))
					if rapid.Bool().Draw(rt, "labelsform") {
						j.Set("runs-on", ye.M().Set("labels", ye.Q("${{ matrix.os }}", ye.Double)))
					} else {
						j.Set("runs-on", ye.S("${{ matrix.os }}"))
					}
					j.Set("steps", ye.L(ye.M().Set("run", ye.S("echo"))))
					at := rapid.IntRange(0, len(jobs.Keys)).Draw(rt, "jobat")
					jobs.Keys = append(jobs.Keys[:at:at], append([]*ye.Node{ye.S("zzrunner")}, jobs.Keys[at:]...)...)
					jobs.Vals = append(jobs.Vals[:at:at], append([]*ye.Node{j}, jobs.Vals[at:]...)...)
					if rapid.Bool().Draw(rt, "qbad") {
						bad.Style = rapid.SampledFrom([]ye.Style{ye.Single, ye.Double}).Draw(rt, "qbads")
					}
					target, msgSub = bad, "label \"ubuntu-bogus\" is unknown"
				}
			case "input-type":
				target = pickLeaf(func(l *wf.Leaf) bool { return l.Path == "on.workflow_call.inputs.<inputs_id>.type" })
				if target != nil {
					setVal(target, "bogustype")
					msgSub = "invalid value \"bogustype\" for input type"
				}
			}
			if target == nil {
				r.Discard("no position of kind " + kind + " in this workflow")
				return
			}
			src := ye.Emit(w.Root, lay)
			col := target.Col
			if useContent {
				col = target.ContentCol + colOff
			}
			c := &c07Exact{YAML: src, Line: target.Line, Col: col, MsgSub: msgSub, What: kind}
			r.Eval()
			if c.Col > 1 {
				r.NT(src)
			}
			q := "plain"
			if target.ContentCol != target.Col {
				q = "quoted"
			}
			r.Class("exact/" + kind + "/" + q)
			if k, m := checkExactPosition(c); k != "" {
				r.Fail(rt, k, m, "C07/exact", c)
			}
		})
		// (b) shift relation between two layouts of one tree
		seeded := []string{"${{ github. }}", "${{ zzzctx.x }}", "${{ github.zzz }}", "a ${{ 'ok' }} b ${{ zzzfunc() }}", "${{ format('{0}{1}') }}", "zz-invalid value", "${{ matrix.nokey }} ${{ steps.nostep.outputs.x }}", "${{ fromJSON('[1]') }}", "${{ github.sha == 1 }}", "echo ::set-output name=a::b"}
		r.Check(t, "shift-two-layouts", hx.N(1500, 40000), func(rt *rapid.T) {
			g := &wf.G{T: rt, Rare: rapid.Bool().Draw(rt, "rare")}
			w := g.Workflow()
			if rapid.Bool().Draw(rt, "shufflekeys") {
				g.ShuffleKeys(w.Root)
			}
			g.Styles(w.Root)
			leaves := scalarLeaves(w.Root)
			ne := rapid.IntRange(1, 4).Draw(rt, "nerr")
			for i := 0; i < ne; i++ {
				lf := leaves[rapid.IntRange(0, len(leaves)-1).Draw(rt, "leaf")]
				v := rapid.SampledFrom(seeded).Draw(rt, "bad")
				lf.Val, lf.Raw = v, ""
				if strings.Contains(v, "'") && lf.Style == ye.Single {
					lf.Style = ye.Double
				}
			}
			if rapid.Bool().Draw(rt, "unknownkey") {
				var maps []*ye.Node
				w.Root.Walk(func(n, p *ye.Node, idx int, isKey bool) {
					if n.Kind == ye.Map && wf.SectionOf(n) != nil {
						maps = append(maps, n)
					}
				})
				m := maps[rapid.IntRange(0, len(maps)-1).Draw(rt, "map")]
				m.Set("zzunknown", ye.S("v"))
			}
			layA, layB := g.Layout(), g.Layout()
			c := &c07Shift{}
			c.YA = ye.Emit(w.Root, layA)
			type pos struct{ l, c, e, k int }
			pa := map[*ye.Node]pos{}
			w.Root.Walk(func(n, p *ye.Node, idx int, isKey bool) {
				if n.Kind == ye.Scalar {
					pa[n] = pos{n.Line, n.Col, n.EndCol, n.ContentCol}
				}
			})
			// layout B may also quote scalars differently (only values free of quotes and backslashes)
			w.Root.Walk(func(n, p *ye.Node, idx int, isKey bool) {
				if n.Kind == ye.Scalar && !isKey && n.Raw == "" && n.Tag == "" && wf.LeafOf(n) != nil && !strings.ContainsAny(n.Val, "'\"\\") && n.Val != "" {
					if l := wf.LeafOf(n); l.Typed != "" && !strings.HasPrefix(n.Val, "${{") {
						return
					}
					if n.Val == "true" || n.Val == "false" || n.Val == "null" || n.Val == "yes" || (n.Val[0] >= '0' && n.Val[0] <= '9') {
						return
					}
					if rapid.IntRange(0, 2).Draw(rt, "restyle") == 0 {
						n.Style = rapid.SampledFrom([]ye.Style{ye.Auto, ye.Single, ye.Double}).Draw(rt, "newstyle")
					}
				}
			})
			c.YB = ye.Emit(w.Root, layB)
			w.Root.Walk(func(n, p *ye.Node, idx int, isKey bool) {
				if n.Kind == ye.Scalar {
					a := pa[n]
					c.Nodes = append(c.Nodes, c07Node{a.l, a.c, a.e, n.Line, n.Col, a.k, n.ContentCol})
				}
			})
			k, m, attributed := checkShift(c)
			r.Eval()
			if c.YA != c.YB && attributed > 0 {
				r.NT(c.YA, c.YB)
			}
			r.Class(fmt.Sprintf("shift/attributed-diagnostics=%d", min(attributed, 6)))
			if k != "" {
				r.Fail(rt, k, m, "C07/shift", c)
			}
		})
		// (b') repository testdata with inserted top lines
		files, _ := filepath.Glob("/repo/testdata/err/*.yaml")
		ex, _ := filepath.Glob("/repo/testdata/examples/*.yaml")
		files = append(files, ex...)
		sort.Strings(files)
		if len(files) > 0 {
			r.Check(t, "shift-inserted-lines", hx.N(150, len(files)*3), func(rt *rapid.T) {
				f := rapid.SampledFrom(files).Draw(rt, "file")
				b, err := os.ReadFile(f)
				if err != nil {
					return
				}
				c := &c07Lines{YAML: string(b), K: rapid.IntRange(1, 7).Draw(rt, "k")}
				k, m, n := checkLineShift(c)
				r.Eval()
				if n > 0 {
					r.NT(c.YAML, fmt.Sprint(c.K))
				}
				r.Class("lines/" + filepath.Base(filepath.Dir(f)))
				if k != "" {
					r.Fail(rt, k, m, "C07/lines", c)
				}
			})
		}
		// (c) bounds on the hostile stream of C01 (structure mutations, tags, aliases, token soup)
		r.Check(t, "bounds-hostile-stream", hx.N(2500, 60000), func(rt *rapid.T) {
			g := &wf.G{T: rt, Rare: rapid.Bool().Draw(rt, "rare")}
			w := g.Workflow()
			hostileMutate(rt, w.Root, rapid.IntRange(1, 5).Draw(rt, "nmut"))
			src := ye.Emit(w.Root, g.Layout())
			if len(src) > 64<<10 {
				return
			}
			ds, err, pan, _ := lintSafe([]byte(src))
			r.Eval()
			if pan != nil || err != nil {
				return // C01's business
			}
			if len(ds) > 0 {
				r.NT(src)
			}
			r.Class("bounds/hostile-stream")
			if k, m := boundsViolation(src, ds); k != "" {
				if strings.Contains(src, `\n`) || strings.Contains(src, `\r`) || strings.Contains(src, `\x`) || strings.Contains(src, `\u`) {
					k = "C07/line-past-eof-escaped-newlines"
				}
				r.Fail(rt, k, m, "C07/exact", &c07Exact{YAML: src, Line: 1, Col: 1, MsgSub: "", What: "bounds"})
			}
		})
		// (c) bounds with escaped line breaks in double-quoted scalars
		r.Check(t, "bounds-escaped-newlines", hx.N(600, 10000), func(rt *rapid.T) {
			g := &wf.G{T: rt}
			w := g.Workflow()
			if rapid.Bool().Draw(rt, "shufflekeys") {
				g.ShuffleKeys(w.Root)
			}
			var cand []*ye.Node
			for _, lf := range scalarLeaves(w.Root) {
				l := wf.LeafOf(lf)
				if l.Template && l.Exempt == "" && l.Typed == "" {
					cand = append(cand, lf)
				}
			}
			if len(cand) == 0 {
				return
			}
			// prefer leaves near the end of the file
			lf := cand[len(cand)-1-rapid.IntRange(0, min(3, len(cand)-1)).Draw(rt, "fromend")]
			nl := strings.Repeat("\n", rapid.IntRange(1, 6).Draw(rt, "nl"))
			lf.Val = rapid.SampledFrom([]string{"${{" + nl + " github. }}", "a" + nl + "${{ zzz }}", "${{ github.sha" + nl + "? }}"}).Draw(rt, "val")
			lf.Raw, lf.Style = "", ye.Double
			src := ye.Emit(w.Root, g.Layout())
			ds, err, pan, _ := lintSafe([]byte(src))
			r.Eval()
			r.NT(src)
			r.Class("bounds/escaped-newlines")
			if pan != nil || err != nil {
				return
			}
			if k, m := boundsViolation(src, ds); k != "" {
				r.Fail(rt, k, m, "C07/exact", &c07Exact{YAML: src, Line: 1, Col: 1, MsgSub: "", What: "bounds"})
			}
		})
	})
}
