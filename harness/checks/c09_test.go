package checks

import (
	"bytes"
	"encoding/json"
	"fmt"
	"regexp"
	"sort"
	"strings"
	"testing"

	al "github.com/rhysd/actionlint"
	"pgregory.net/rapid"
	"verifharness/hx"
	"verifharness/wf"
	"verifharness/world"
	ye "verifharness/yamlemit"
)

// ---- C09: jobs, steps and expressions are checked independently (no state leaks) ------------------------

type c09Case struct {
	A, B   string   `json:"-"`
	YA     string   `json:"a"`
	YB     string   `json:"b"`
	What   string   `json:"what"`    // the variation
	Unit   string   `json:"unit"`    // "job" or "step"
	StartA int      `json:"start_a"` // first line of the observed unit in A
	EndA   int      `json:"end_a"`   // last line (inclusive)
	StartB int      `json:"start_b"`
	EndB   int      `json:"end_b"`
	Config string   `json:"config,omitempty"` // content of .github/actionlint.yaml ("" = no repository)
	Ignore []string `json:"ignore,omitempty"` // -ignore patterns given to the linter
}

// c09Lint lints a workflow, inside a temporary repository when a configuration is given.
func c09Lint(src, config string, ignore []string) ([]Diag, error, any, string) {
	if config == "" && len(ignore) == 0 {
		return lintSafe([]byte(src))
	}
	var ds []Diag
	var err error
	var pan any
	if config == "" {
		func() {
			defer func() { pan = recover() }()
			l, e := al.NewLinter(&bytes.Buffer{}, &al.LinterOptions{IgnorePatterns: ignore})
			if e != nil {
				err = e
				return
			}
			var errs []*al.Error
			errs, err = l.Lint("<stdin>", []byte(src), nil)
			ds = toDiags(errs)
		}()
		return ds, err, pan, ""
	}
	w := world.New()
	defer w.Cleanup()
	w.Repo("")
	w.Write(".github/actionlint.yaml", config)
	w.Write(".github/workflows/callee.yml", c09Callee)
	p := w.Write(".github/workflows/w.yml", src)
	func() {
		defer func() { pan = recover() }()
		l, e := al.NewLinter(&bytes.Buffer{}, &al.LinterOptions{WorkingDir: w.Root, IgnorePatterns: ignore})
		if e != nil {
			err = e
			return
		}
		var errs []*al.Error
		errs, err = l.LintFile(p, nil)
		ds = toDiags(errs)
	}()
	return ds, err, pan, ""
}

// c09Callee is the local reusable workflow which call jobs of the compositions may use.
const c09Callee = "on:\n  workflow_call:\n    inputs:\n      req:\n        type: string\n        required: true\n      num:\n        type: number\n    secrets:\n      tok:\n        required: true\n    outputs:\n      out:\n        value: x\njobs:\n  j:\n    runs-on: ubuntu-latest\n    steps:\n      - run: echo\n"

func unitDiags(ds []Diag, start, end int) []string {
	var out []string
	for _, d := range ds {
		if d.Line >= start && d.Line <= end {
			out = append(out, fmt.Sprintf("+%d:%d|%s|%s", d.Line-start, d.Col, d.Kind, rePosInMsg.ReplaceAllString(d.Msg, "P")))
		}
	}
	sort.Strings(out)
	return out
}

func checkIndependence(c *c09Case) (key, msg string, n int) {
	da, err, pan, st := c09Lint(c.YA, c.Config, c.Ignore)
	if pan != nil || err != nil {
		return "C09/panic-or-fatal", fmt.Sprintf("%v %v %s\n%s", pan, err, st, c.YA), 0
	}
	db, err, pan, st := c09Lint(c.YB, c.Config, c.Ignore)
	if pan != nil || err != nil {
		return "C09/panic-or-fatal", fmt.Sprintf("%v %v %s\n%s", pan, err, st, c.YB), 0
	}
	ua, ub := unitDiags(da, c.StartA, c.EndA), unitDiags(db, c.StartB, c.EndB)
	if strings.Join(ua, "\n") != strings.Join(ub, "\n") {
		onlyA, onlyB := diffStrings(ua, ub)
		key := "C09/" + c.Unit + "-diagnostics-depend-on-unrelated-parts:" + strings.SplitN(c.What, " ", 2)[0]
		all := strings.Join(append(onlyA, onlyB...), " ")
		if (strings.Contains(all, "array<") || strings.Contains(all, "object dereference") || strings.Contains(all, "must be type of")) && (strings.Contains(c.YA, ".*") || strings.Contains(c.YB, ".*")) {
			key = "C09/filter-expression-changes-type-seen-by-later-expression"
		}
		if (strings.Contains(all, `property "include" is not defined`) || strings.Contains(all, `property "exclude" is not defined`)) && strings.Contains(c.YA, "inputs }}") {
			key = "C09/matrix-given-by-context-object-modifies-the-context-type"
		}
		return key, fmt.Sprintf("variation: %s\nthe observed %s (lines %d-%d in A, %d-%d in B) got different diagnostics.\nonly in A: %v\nonly in B: %v\n--- A\n%s\n--- B\n%s", c.What, c.Unit, c.StartA, c.EndA, c.StartB, c.EndB, onlyA, onlyB, c.YA, c.YB), len(ua)
	}
	return "", "", len(ua)
}

func init() {
	hx.RegisterReplayer("C09/pair", func(r *hx.Run, data json.RawMessage) {
		var c c09Case
		if err := json.Unmarshal(data, &c); err != nil {
			panic(err)
		}
		for i := 0; i < 4; i++ {
			if k, m, _ := checkIndependence(&c); k != "" {
				r.Report(k, m, "C09/pair", &c)
				return
			}
		}
	})
}

// lastLine returns the last line used by the subtree rooted at n (after Emit).
func lastLine(n *ye.Node) int {
	l := n.Line
	n.Walk(func(x, _ *ye.Node, _ int, _ bool) {
		if x.Line > l {
			l = x.Line
		}
	})
	return l
}

var c09Exprs = []string{
	"${{ matrix.cfg.*.k }}", "${{ matrix.cfg.k }}", "${{ matrix.cfg[0].k }}", "${{ matrix.grid.* }}", "${{ matrix.grid.foo }}", "${{ matrix.grid[0][0] }}",
	"${{ matrix.os.* }}", "${{ matrix.os.foo }}", "${{ matrix.os }}", "${{ matrix.list.* }}", "${{ matrix.list.bar }}", "${{ matrix.nokey }}",
	"${{ steps.nostep.outputs.x }}", "${{ needs.nojob.result }}", "${{ needs.*.result }}", "${{ github.event.*.body }}", "${{ github.event.commits.*.message }}",
	"${{ github. }}", "${{ zzz }}", "${{ format('{0}{1}', 1) }}", "${{ fromJSON('[{\"a\":1}]').*.a }}", "${{ fromJSON('[{\"a\":1}]').a }}", "${{ env.X.* }}",
	"${{ secrets.*.x }}", "${{ toJSON(matrix) }}", "${{ matrix.*.k }}", "${{ matrix.* }}", "${{ strategy.job-index.* }}", "${{ runner.os == 1 }}",
	"echo ::set-output name=a::b", "zz-invalid", "${{ inputs.nosuch }}", "${{ github.event.inputs.nosuch }}", "${{ contains(matrix.cfg.*.k, 'v') }}",
}

func TestC09(t *testing.T) {
	hx.Main(t, "C09", func(r *hx.Run) {
		r.Rule = "workflow composed of independently generated jobs (matrix with scalar / array-valued / object-valued rows and include, steps with ids, defaults/shell, runs-on, container, services; in a third of the compositions Windows / Linux / macOS / unknown runners side by side with valid, platform-specific and unknown shell names at steps and in defaults.run; call jobs of remote workflows and, inside a repository, of a local reusable workflow with and without an invalid ref) with 2-8 values replaced by expressions from a pool biased towards `.*` filters and property/index access on the same paths, plus errors of many rules. Variations of the history before the observed unit: (i) delete jobs the observed job does not (transitively) need, (ii) permute the job order, (iii) delete id-less steps of the observed job / before the observed step, (iv) insert an extra step before the observed step whose only content is another expression, (v) repetition. One third of the compositions are linted with 1-2 -ignore patterns taken from their own messages. Oracle: the multiset of (line relative to the unit start, column, kind, message with embedded positions normalised) attributed to the observed job / step is identical. Non-trivial = the removed/added part has >= 1 diagnostic or contains an expression, and the observed unit has >= 1 diagnostic; distinct = pair of texts."
		r.Assumptions = []string{"only unrelated parts are removed: the transitive needs closure of the observed job and steps with ids stay", "job ids are unique; needs only refer to earlier jobs"}
		r.Check(t, "compositions", hx.N(1500, 40000), func(rt *rapid.T) {
			g := &wf.G{T: rt, Rare: rapid.Bool().Draw(rt, "rare")}
			var w *wf.WF
			for tries := 0; ; tries++ {
				w = g.Workflow()
				if len(w.RegularJobs) >= 1 && (len(w.Jobs) >= 2 || tries > 3) {
					break
				}
			}
			leaves := scalarLeaves(w.Root)
			var cand []*ye.Node
			for _, lf := range leaves {
				l := wf.LeafOf(lf)
				if l.Template && l.Exempt == "" && strings.HasPrefix(l.Path, "jobs.") && !strings.HasSuffix(l.Path, ".id") && !strings.HasSuffix(l.Path, ".needs") && !strings.HasSuffix(l.Path, ".uses") {
					cand = append(cand, lf)
				}
			}
			pool := c09Exprs
			// a context object used as a whole matrix: `matrix: ${{ inputs }}` with inputs named like
			// the special matrix keys
			if on := w.Root.Get("on"); on != nil && on.Kind == ye.Map && rapid.IntRange(0, 2).Draw(rt, "ctxmatrix") == 0 {
				if d := on.Get("workflow_dispatch"); d != nil && d.Kind == ye.Map && d.Get("inputs") != nil {
					ins := d.Get("inputs")
					names := []string{"exclude", "include"}
					for i := range ins.Keys {
						if i < len(names) {
							ins.Keys[i].Val = names[i]
						}
					}
					pool = append(append([]string{}, c09Exprs...), "${{ inputs.exclude }}", "${{ inputs.include }}", "${{ github.event.inputs.exclude }}", "${{ inputs.exclude }}", "${{ inputs.include }}")
					for _, id := range w.Jobs {
						j := w.Root.Get("jobs").Get(id)
						if rapid.Bool().Draw(rt, "setmatrix") {
							st := j.Get("strategy")
							if st == nil {
								st = ye.M()
								j.Set("strategy", st)
							}
							st.Del("matrix")
							if rapid.Bool().Draw(rt, "ctxasincludeelement") {
								// the context object as the first element of an include-only matrix, followed
								// by a literal element that brings a key of its own
								inc := ye.L(ye.Q(rapid.SampledFrom([]string{"${{ inputs }}", "${{ github }}", "${{ github.event.inputs }}"}).Draw(rt, "incctx"), ye.Double), ye.M().Set("extra", ye.S("1")))
								st.Set("matrix", ye.M().Set("include", inc))
								pool = append(pool, "${{ inputs.extra }}", "${{ github.extra }}", "${{ github.event.inputs.extra }}", "${{ inputs.extra }}")
							} else {
								st.Set("matrix", ye.Q(rapid.SampledFrom([]string{"${{ inputs }}", "${{ github.event.inputs }}"}).Draw(rt, "mctx"), ye.Double))
							}
						}
					}
				}
			}
			// shell names are judged per job platform: Windows, Linux / macOS and unknown runners next to each
			// other, with valid, platform-specific and unknown shell names at steps and in defaults
			if rapid.IntRange(0, 2).Draw(rt, "platformshells") == 0 {
				shellPool := []string{"bash", "sh", "sh", "pwsh", "cmd", "powershell", "python", "fish", "bash -e {0}", "zsh"}
				for _, id := range w.RegularJobs {
					if !rapid.Bool().Draw(rt, "setplatform") {
						continue
					}
					j := w.Root.Get("jobs").Get(id)
					if j == nil || j.Get("steps") == nil {
						continue
					}
					j.Del("runs-on")
					switch rapid.IntRange(0, 4).Draw(rt, "platform") {
					case 0:
						j.Set("runs-on", ye.S("windows-latest"))
					case 1:
						j.Set("runs-on", ye.L(ye.S("self-hosted"), ye.S("windows")))
					case 2:
						j.Set("runs-on", ye.S("macos-latest"))
					case 3:
						j.Set("runs-on", ye.S("ubuntu-latest"))
					default:
						j.Set("runs-on", ye.L(ye.S("self-hosted")))
					}
					if rapid.IntRange(0, 3).Draw(rt, "defaultshell") == 0 {
						j.Del("defaults")
						j.Set("defaults", ye.M().Set("run", ye.M().Set("shell", ye.S(rapid.SampledFrom(shellPool).Draw(rt, "dshell")))))
					}
					for _, st := range j.Get("steps").Vals {
						if st.Kind == ye.Map && st.Get("run") != nil && rapid.Bool().Draw(rt, "stepshell") {
							st.Del("shell")
							st.Set("shell", ye.S(rapid.SampledFrom(shellPool).Draw(rt, "sshell")))
						}
					}
				}
			}
			// a repository configuration (self-hosted label patterns, configuration variables) and
			// runner labels / variable references spelled in several letter cases across jobs
			config := ""
			if rapid.IntRange(0, 2).Draw(rt, "withconfig") == 0 {
				config = "self-hosted-runner:\n  labels:\n    - GPU-*\n    - linux-*\n    - exact-Label\nconfig-variables:\n  - VAR_A\n  - Var_B\n"
				labelPool := []string{"GPU-large", "gpu-large", "Gpu-Large", "linux-x", "LINUX-x", "exact-Label", "exact-label", "EXACT-LABEL", "other-label", "ubuntu-latest", "Ubuntu-Latest"}
				for _, id := range w.RegularJobs {
					if rapid.Bool().Draw(rt, "relabel") {
						j := w.Root.Get("jobs").Get(id)
						j.Del("runs-on")
						if rapid.Bool().Draw(rt, "labelseq") {
							j.Set("runs-on", ye.L(ye.S("self-hosted"), ye.S(rapid.SampledFrom(labelPool).Draw(rt, "label"))))
						} else {
							j.Set("runs-on", ye.S(rapid.SampledFrom(labelPool).Draw(rt, "label")))
						}
					}
				}
				pool = append(append([]string{}, pool...), "${{ vars.VAR_A }}", "${{ vars.var_a }}", "${{ vars.VAR_B }}", "${{ vars.NOPE }}", "${{ vars.nope }}")
			}
			// with a repository: some call jobs use the local reusable workflow, validly spelled or with a
			// ref (which is invalid for local calls and reported)
			regular := map[string]bool{}
			for _, id := range w.RegularJobs {
				regular[id] = true
			}
			var localCalls []string
			if config != "" {
				for _, id := range w.Jobs {
					if regular[id] || !rapid.Bool().Draw(rt, "localcall") {
						continue
					}
					if j := w.Root.Get("jobs").Get(id); j != nil && j.Get("uses") != nil {
						j.Get("uses").Val = "./.github/workflows/callee.yml" + rapid.SampledFrom([]string{"", "", "@main"}).Draw(rt, "localref")
						j.Get("uses").Raw = ""
						localCalls = append(localCalls, id)
					}
				}
			}
			// step ids are scoped to their job: make ids of different jobs coincide up to letter case
			if rapid.IntRange(0, 2).Draw(rt, "sharedstepids") == 0 {
				var idNodes [][]*ye.Node // per job
				for _, id := range w.RegularJobs {
					var ns []*ye.Node
					if j := w.Root.Get("jobs").Get(id); j != nil && j.Get("steps") != nil {
						for _, st := range j.Get("steps").Vals {
							if st.Kind == ye.Map && st.Get("id") != nil && st.Get("id").Kind == ye.Scalar && !strings.Contains(st.Get("id").Val, "${{") {
								ns = append(ns, st.Get("id"))
							}
						}
					}
					if len(ns) > 0 {
						idNodes = append(idNodes, ns)
					}
				}
				if len(idNodes) >= 2 {
					r.Class("step-ids-shared-between-jobs")
					base := "Shared" + rapid.SampledFrom([]string{"Build", "test", "X"}).Draw(rt, "sharedname")
					for ji, ns := range idNodes {
						n := ns[rapid.IntRange(0, len(ns)-1).Draw(rt, "sharedat")]
						switch (ji + rapid.IntRange(0, 2).Draw(rt, "sharedcase")) % 3 {
						case 0:
							n.Val = base
						case 1:
							n.Val = strings.ToLower(base)
						default:
							n.Val = strings.ToUpper(base)
						}
						n.Raw = ""
					}
				}
			}
			ne := rapid.IntRange(2, 8).Draw(rt, "nexpr")
			for i := 0; i < ne && len(cand) > 0; i++ {
				lf := cand[rapid.IntRange(0, len(cand)-1).Draw(rt, "leaf")]
				lf.Val, lf.Raw = rapid.SampledFrom(pool).Draw(rt, "expr"), ""
				if lf.Style == ye.Single {
					lf.Style = ye.Double
				}
			}
			lay := g.Layout()
			jobsNode := w.Root.Get("jobs")
			// observed job: a regular one
			obsID := w.RegularJobs[rapid.IntRange(0, len(w.RegularJobs)-1).Draw(rt, "obs")]
			if len(localCalls) > 0 && rapid.Bool().Draw(rt, "observecall") {
				obsID = localCalls[rapid.IntRange(0, len(localCalls)-1).Draw(rt, "obscall")]
				r.Class("observed-job-calls-local-workflow")
			}
			obs := jobsNode.Get(obsID)
			// transitive needs closure
			keep := map[string]bool{obsID: true}
			var close func(id string)
			close = func(id string) {
				j := jobsNode.Get(id)
				if j == nil {
					return
				}
				nd := j.Get("needs")
				if nd == nil {
					return
				}
				var names []string
				if nd.Kind == ye.Scalar {
					names = []string{nd.Val}
				} else {
					for _, x := range nd.Vals {
						names = append(names, x.Val)
					}
				}
				for _, n := range names {
					if !keep[n] {
						keep[n] = true
						close(n)
					}
				}
			}
			close(obsID)
			ya := ye.Emit(w.Root, lay)
			jobKey := func() *ye.Node {
				for i, k := range jobsNode.Keys {
					if k.Val == obsID {
						_ = i
						return k
					}
				}
				return nil
			}
			sa, ea := jobKey().Line, lastLine(obs)
			// -ignore patterns: the filter works per diagnostic, so the relation is the same with it.
			// Patterns are the fixed text in front of the first quoted part of messages of this workflow.
			var ignore []string
			if rapid.IntRange(0, 2).Draw(rt, "useignore") == 0 {
				if d0, _, _, _ := c09Lint(ya, config, nil); len(d0) > 0 {
					for i := rapid.IntRange(1, 2).Draw(rt, "nignore"); i > 0; i-- {
						m := d0[rapid.IntRange(0, len(d0)-1).Draw(rt, "ignmsg")].Msg
						if j := strings.IndexAny(m, "\"'"); j > 3 {
							m = m[:j]
						} else if len(m) > 24 {
							m = m[:24]
						}
						ignore = append(ignore, "^"+regexp.QuoteMeta(m))
					}
				}
			}
			run := func(c *c09Case, interesting bool) bool {
				c.Ignore = ignore
				if len(ignore) > 0 {
					r.Class("with-ignore-patterns")
				}
				k, m, n := checkIndependence(c)
				r.Eval()
				if interesting && n > 0 && c.YA != c.YB {
					r.NT(c.YA, c.YB)
				}
				r.Class(c.Unit + "/" + strings.SplitN(c.What, " ", 2)[0])
				r.Sample(map[string]any{"variation": c.What, "unit": c.Unit, "observed_lines_in_a": []int{c.StartA, c.EndA}, "a": c.YA, "b": c.YB})
				if k != "" {
					r.Fail(rt, k, m, "C09/pair", c)
					return false
				}
				return true
			}
			origKeys, origVals := append([]*ye.Node(nil), jobsNode.Keys...), append([]*ye.Node(nil), jobsNode.Vals...)
			restoreJobs := func() {
				jobsNode.Keys, jobsNode.Vals = append([]*ye.Node(nil), origKeys...), append([]*ye.Node(nil), origVals...)
			}
			// (i) delete unrelated jobs
			if len(origKeys) > len(keep) {
				var ks, vs []*ye.Node
				removed := 0
				for i, k := range origKeys {
					if keep[k.Val] || rapid.Bool().Draw(rt, "keepjob") {
						ks, vs = append(ks, k), append(vs, origVals[i])
					} else {
						removed++
					}
				}
				if removed > 0 {
					jobsNode.Keys, jobsNode.Vals = ks, vs
					yb := ye.Emit(w.Root, lay)
					c := &c09Case{Config: config, YA: ya, YB: yb, What: fmt.Sprintf("delete-unrelated-jobs (%d removed)", removed), Unit: "job", StartA: sa, EndA: ea, StartB: jobKey().Line, EndB: lastLine(obs)}
					restoreJobs()
					if !run(c, true) {
						return
					}
				}
			}
			// (ii) permute job order
			if len(origKeys) > 1 {
				perm := rapid.Permutation(func() []int {
					x := make([]int, len(origKeys))
					for i := range x {
						x[i] = i
					}
					return x
				}()).Draw(rt, "perm")
				var ks, vs []*ye.Node
				for _, i := range perm {
					ks, vs = append(ks, origKeys[i]), append(vs, origVals[i])
				}
				jobsNode.Keys, jobsNode.Vals = ks, vs
				yb := ye.Emit(w.Root, lay)
				c := &c09Case{Config: config, YA: ya, YB: yb, What: "permute-jobs", Unit: "job", StartA: sa, EndA: ea, StartB: jobKey().Line, EndB: lastLine(obs)}
				restoreJobs()
				if !run(c, true) {
					return
				}
			}
			// step-level variations inside the observed job
			steps := obs.Get("steps")
			if steps == nil || len(steps.Vals) == 0 {
				return
			}
			ye.Emit(w.Root, lay) // positions of A again
			oi := rapid.IntRange(0, len(steps.Vals)-1).Draw(rt, "ostep")
			ostep := steps.Vals[oi]
			ssa, sea := ostep.Line, lastLine(ostep)
			origSteps := append([]*ye.Node(nil), steps.Vals...)
			// (iii) delete id-less steps before the observed one
			var vs []*ye.Node
			removed := 0
			for i, s := range origSteps {
				if i < oi && s.Get("id") == nil && rapid.Bool().Draw(rt, "dropstep") {
					removed++
					continue
				}
				vs = append(vs, s)
			}
			if removed > 0 {
				steps.Vals = vs
				yb := ye.Emit(w.Root, lay)
				c := &c09Case{Config: config, YA: ya, YB: yb, What: fmt.Sprintf("delete-earlier-steps (%d removed)", removed), Unit: "step", StartA: ssa, EndA: sea, StartB: ostep.Line, EndB: lastLine(ostep)}
				steps.Vals = append([]*ye.Node(nil), origSteps...)
				if !run(c, true) {
					return
				}
			}
			// (iv) insert an extra step before the observed one
			extra := ye.M().Set("run", ye.S("echo")).Set("env", ye.M().Set("X", ye.Q(rapid.SampledFrom(pool).Draw(rt, "xexpr"), ye.Double)))
			at := rapid.IntRange(0, oi).Draw(rt, "insertat")
			steps.Vals = append(append(append([]*ye.Node(nil), origSteps[:at]...), extra), origSteps[at:]...)
			yb := ye.Emit(w.Root, lay)
			c := &c09Case{Config: config, YA: ya, YB: yb, What: "insert-step-before (" + extra.Get("env").Get("X").Val + ")", Unit: "step", StartA: ssa, EndA: sea, StartB: ostep.Line, EndB: lastLine(ostep)}
			steps.Vals = append([]*ye.Node(nil), origSteps...)
			if !run(c, true) {
				return
			}
			// (v) repetition
			c = &c09Case{Config: config, YA: ya, YB: ya, What: "repeat", Unit: "job", StartA: sa, EndA: ea, StartB: sa, EndB: ea}
			run(c, false)
		})
	})
}
