package checks

import (
	"os"
	"sort"
	"testing"

	"pgregory.net/rapid"
	"verifharness/wf"
	ye "verifharness/yamlemit"
)

// TestWFClean is a development aid: the clean-workflow generator must produce workflows that lint clean.
func TestWFClean(t *testing.T) {
	if os.Getenv("VERIF_DEV") == "" {
		t.Skip("development aid")
	}
	bad := map[string]int{}
	paths := map[string]int{}
	n := 0
	rapid.Check(t, func(rt *rapid.T) {
		g := &wf.G{T: rt, Rare: rapid.Bool().Draw(rt, "rare")}
		w := g.Workflow()
		g.Styles(w.Root)
		src := ye.Emit(w.Root, g.Layout())
		n++
		ds, err := lint(src)
		if err != nil {
			t.Fatalf("fatal %v\n%s", err, src)
		}
		w.Root.Walk(func(nd, _ *ye.Node, _ int, isKey bool) {
			if l := wf.LeafOf(nd); l != nil && !isKey {
				paths[l.Path]++
			}
		})
		for _, d := range ds {
			bad[d.Msg]++
			if bad[d.Msg] == 1 {
				t.Logf("UNCLEAN %s\n%s", d, src)
			}
		}
	})
	t.Logf("n=%d distinct unclean messages=%d leaf paths=%d", n, len(bad), len(paths))
	var ps []string
	for p := range paths {
		ps = append(ps, p)
	}
	sort.Strings(ps)
	for _, p := range ps {
		t.Logf("  %s %d", p, paths[p])
	}
}

// TestWFCleanShuffled: the generator output stays clean under key shuffling.
func TestWFCleanShuffled(t *testing.T) {
	if os.Getenv("VERIF_DEV") == "" {
		t.Skip("development aid")
	}
	bad := map[string]int{}
	rapid.Check(t, func(rt *rapid.T) {
		g := &wf.G{T: rt, Rare: rapid.Bool().Draw(rt, "rare")}
		w := g.Workflow()
		g.ShuffleKeys(w.Root)
		src := ye.Emit(w.Root, g.Layout())
		ds, _ := lint(src)
		for _, d := range ds {
			bad[d.Msg]++
			if bad[d.Msg] == 1 {
				t.Logf("UNCLEAN %s\n%s", d, src)
			}
		}
	})
	t.Logf("distinct unclean messages=%d", len(bad))
}
