package checks

import (
	"encoding/json"
	"fmt"
	"math"
	"strconv"
	"strings"
	"testing"

	al "github.com/rhysd/actionlint"
	"pgregory.net/rapid"
	eg "verifharness/exprgen"
	"verifharness/hx"
)

// ---- C04: the expression parser accepts exactly the documented grammar ---------------------------

type exprCase struct {
	Src  string `json:"src"`            // text without the end marker
	Want string `json:"want,omitempty"` // canonical tree known by construction ("" = ask the reference parser)
}

// numberValue interprets a number literal per JSON / 0x hex. ok=false when not a finite float64 or
// (for integer forms) outside int64.
func numberValue(lit string) (isInt bool, i int64, f float64, ok bool) {
	neg := strings.HasPrefix(lit, "-")
	body := strings.TrimPrefix(lit, "-")
	if strings.HasPrefix(body, "0x") {
		u, err := strconv.ParseUint(body[2:], 16, 64)
		if err != nil || u > math.MaxInt64 {
			return true, 0, 0, false
		}
		v := int64(u)
		if neg {
			v = -v
		}
		return true, v, 0, true
	}
	if !strings.ContainsAny(body, ".eE") {
		v, err := strconv.ParseInt(lit, 10, 64)
		return true, v, 0, err == nil
	}
	v, err := strconv.ParseFloat(lit, 64)
	if err != nil || math.IsInf(v, 0) || math.IsNaN(v) {
		return false, 0, 0, false
	}
	return false, 0, v, true
}

// literalRange classifies the number literals of a reference tree: "" all representable,
// "int32" some integer literal outside int32, "range" some literal outside int64 / finite float64.
func literalRange(n *eg.Node) string {
	worst := ""
	var walk func(n *eg.Node)
	walk = func(n *eg.Node) {
		if n.Kind == "num" {
			isInt, i, _, ok := numberValue(n.Val)
			if !ok {
				worst = "range"
			} else if isInt && (i > math.MaxInt32 || i < math.MinInt32) && worst == "" {
				worst = "int32"
			}
		}
		for _, k := range n.Kids {
			walk(k)
		}
	}
	walk(n)
	return worst
}

func hasPlusExponent(n *eg.Node) bool {
	if n.Kind == "num" && strings.Contains(n.Val, "+") {
		return true
	}
	for _, k := range n.Kids {
		if hasPlusExponent(k) {
			return true
		}
	}
	return false
}

// checkLiteralValues compares the values actionlint stored for literals with an independent
// interpretation of the literal text.
func checkLiteralValues(n al.ExprNode) string {
	bad := ""
	al.VisitExprNode(n, func(node, _ al.ExprNode, entering bool) {
		if !entering || bad != "" {
			return
		}
		switch node := node.(type) {
		case *al.IntNode:
			isInt, i, _, ok := numberValue(node.Token().Value)
			if !isInt || !ok || int64(node.Value) != i {
				bad = fmt.Sprintf("integer literal %q has value %d", node.Token().Value, node.Value)
			}
		case *al.FloatNode:
			isInt, _, f, ok := numberValue(node.Token().Value)
			if isInt || !ok || node.Value != f {
				bad = fmt.Sprintf("float literal %q has value %v", node.Token().Value, node.Value)
			}
		}
	})
	return bad
}

// checkExpr is the oracle: returns ("", "") or (key, message). accepted reports the reference verdict.
func checkExpr(c *exprCase) (key, msg string, accepted bool) {
	src := c.Src + "}}"
	ref, wok := eg.Parse(src)
	want := c.Want
	if want != "" {
		// the tree is known by construction; the reference parser must agree with it (self-check of
		// the harness: a disagreement is a harness bug, never a finding about actionlint)
		if !wok || ref.Dump() != want {
			d := "<rejected>"
			if wok {
				d = ref.Dump()
			}
			return "harness/reference-disagrees-with-construction", fmt.Sprintf("%q constructed=%s reference=%s", c.Src, want, d), true
		}
	} else if wok {
		want = ref.Dump()
	}
	var node al.ExprNode
	var err *al.ExprError
	var pan any
	func() {
		defer func() { pan = recover() }()
		node, err = al.NewExprParser().Parse(al.NewExprLexer(src))
	}()
	if pan != nil {
		return "C04/panic", fmt.Sprintf("panic %v on %q", pan, c.Src), wok
	}
	gok := err == nil
	if wok && !gok {
		switch {
		case literalRange(ref) == "range":
			return "C04/number-literal-out-of-range-rejected", fmt.Sprintf("%q is a sentence of the grammar but rejected: %v", c.Src, err), wok
		case literalRange(ref) == "int32" && strings.Contains(err.Message, "invalid integer literal"):
			return "C04/int-literal-outside-int32-rejected", fmt.Sprintf("%q is a sentence of the grammar but rejected: %v", c.Src, err), wok
		case hasPlusExponent(ref) && strings.Contains(err.Message, "exponent part"):
			return "C04/exponent-plus-sign-rejected", fmt.Sprintf("%q is a sentence of the grammar (JSON exponent with +) but rejected: %v", c.Src, err), wok
		}
		return "C04/valid-sentence-rejected", fmt.Sprintf("%q is a sentence of the grammar but rejected: %v", c.Src, err), wok
	}
	if !wok && gok {
		return "C04/invalid-text-accepted", fmt.Sprintf("%q is not a sentence of the grammar but accepted as %s", c.Src, eg.DumpAL(node)), wok
	}
	if wok {
		if g := eg.DumpAL(node); g != want {
			return "C04/wrong-structure", fmt.Sprintf("%q analysed as %s, grammar says %s", c.Src, g, want), wok
		}
		if b := checkLiteralValues(node); b != "" {
			return "C04/wrong-literal-value", fmt.Sprintf("%q: %s", c.Src, b), wok
		}
		return "", "", wok
	}
	// rejected: one error, positioned inside the text
	if err.Offset < 0 || err.Offset > len(src) {
		return "C04/error-offset-out-of-range", fmt.Sprintf("%q: offset %d (len %d) %v", c.Src, err.Offset, len(src), err), wok
	}
	if isASCII(src) {
		pre := src[:err.Offset]
		line := 1 + strings.Count(pre, "\n")
		col := err.Offset - (strings.LastIndex(pre, "\n") + 1) + 1
		if err.Line != line || err.Column != col {
			return "C04/error-line-column-inconsistent", fmt.Sprintf("%q: offset %d is line %d col %d, reported line %d col %d", c.Src, err.Offset, line, col, err.Line, err.Column), wok
		}
	}
	if err.Message == "" {
		return "C04/empty-error-message", fmt.Sprintf("%q", c.Src), wok
	}
	return "", "", wok
}

func isASCII(s string) bool {
	for i := 0; i < len(s); i++ {
		if s[i] >= 0x80 {
			return false
		}
	}
	return true
}

// checkExprThroughLinter: rejected text yields exactly one expression diagnostic inside the
// placeholder; accepted text yields no syntax diagnostic. src must be YAML-plain-safe.
// c04Prefix is literal text put before the placeholder in the same scalar (it must not change how
// the placeholder is analysed).
var c04Prefix = ""

func checkExprThroughLinter(src string, viaIf bool) (key, msg string) {
	_, wok := eg.Parse(src + "}}")
	var y string
	var line, c0, c1 int
	if viaIf {
		y = "on: push\njobs:\n  a:\n    runs-on: ubuntu-latest\n    if: " + src + "\n    steps:\n      - run: echo\n"
		line, c0, c1 = 5, 9, 9+len(src)
	} else {
		y = "on: push\njobs:\n  a:\n    runs-on: ubuntu-latest\n    steps:\n      - run: echo\n        env:\n          X: " + c04Prefix + "${{" + src + "}}\n"
		line, c0, c1 = 8, 14+len(c04Prefix), 14+len(c04Prefix)+3+len(src)+2
	}
	ds, err, pan, st := lintSafe([]byte(y))
	if pan != nil {
		return "C04/panic", fmt.Sprintf("panic %v at %s\n%s", pan, st, y)
	}
	if err != nil {
		return "C04/linter-fatal", fmt.Sprintf("%v\n%s", err, y)
	}
	nsyn := 0
	for _, d := range ds {
		if d.Kind != "expression" {
			continue
		}
		if isSyntaxMsg(d.Msg) {
			nsyn++
			if d.Line != line || d.Col < c0 || d.Col > c1 {
				return "C04/linter-syntax-diagnostic-outside-placeholder", fmt.Sprintf("%s not within line %d cols %d..%d\n%s", d, line, c0, c1, y)
			}
		}
	}
	if !wok && nsyn != 1 {
		return "C04/linter-rejected-text-not-exactly-one-syntax-diagnostic", fmt.Sprintf("%d syntax diagnostics for rejected %q: %v\n%s", nsyn, src, diagStrings(ds), y)
	}
	if wok && nsyn != 0 {
		if r, _ := eg.Parse(src + "}}"); r != nil && (literalRange(r) != "" || hasPlusExponent(r)) {
			return "", "" // reported at parser level under its own key
		}
		return "C04/linter-syntax-diagnostic-for-valid-sentence", fmt.Sprintf("%q: %v\n%s", src, diagStrings(ds), y)
	}
	return "", ""
}

type bareIfCase struct {
	Src   string `json:"src"`
	Valid bool   `json:"valid"`
	Step  bool   `json:"step"`
}

// checkBareIf: src as an `if:` condition without ${{ }}. A sentence of the grammar gives no
// diagnostic other than expression type errors; a non-sentence gives an expression syntax diagnostic on
// the condition's line.
func checkBareIf(src string, valid, step bool) (key, msg string) {
	y := "on: push\njobs:\n  a:\n    runs-on: ubuntu-latest\n    if: " + src + "\n    steps:\n      - run: echo\n"
	line := 5
	if step {
		y = "on: push\njobs:\n  a:\n    runs-on: ubuntu-latest\n    steps:\n      - run: echo\n        if: " + src + "\n"
		line = 7
	}
	ds, err, pan, st := lintSafe([]byte(y))
	if pan != nil {
		return "C04/panic", fmt.Sprintf("panic %v at %s\n%s", pan, st, y)
	}
	if err != nil {
		return "C04/linter-fatal", fmt.Sprintf("%v\n%s", err, y)
	}
	if valid {
		for _, d := range ds {
			// type errors of well-formed conditions (null < true) are not syntax
			if d.Kind != "expression" || isSyntaxMsg(d.Msg) {
				return "C04/bare-if-sentence-rejected", fmt.Sprintf("%q is a sentence of the grammar but as a bare if: condition it is rejected: %v\n%s", src, diagStrings(ds), y)
			}
		}
		return "", ""
	}
	for _, d := range ds {
		if d.Line == line && d.Kind == "expression" && isSyntaxMsg(d.Msg) {
			return "", ""
		}
	}
	return "C04/bare-if-non-sentence-accepted", fmt.Sprintf("%q is not a sentence of the grammar but as a bare if: condition it gets no syntax diagnostic: %v\n%s", src, diagStrings(ds), y)
}

func isSyntaxMsg(m string) bool {
	return strings.HasPrefix(m, "got unexpected ") || strings.HasPrefix(m, "unexpected end of input") ||
		strings.HasPrefix(m, "unexpected token ") || strings.HasPrefix(m, "parser did not reach end of input") ||
		strings.HasPrefix(m, "unexpected EOF") || strings.HasPrefix(m, "parsing invalid ") ||
		strings.Contains(m, "while lexing") || strings.Contains(m, "while parsing")
}

func yamlPlainSafe(s string) bool {
	if s == "" || strings.TrimSpace(s) != s {
		return false
	}
	if strings.ContainsAny(s, "\n\r\t\"#") || strings.Contains(s, ": ") || strings.HasSuffix(s, ":") {
		return false
	}
	return isASCII(s)
}

func init() {
	hx.RegisterReplayer("C04/bare-if", func(r *hx.Run, data json.RawMessage) {
		var c bareIfCase
		if err := json.Unmarshal(data, &c); err != nil {
			panic(err)
		}
		if k, m := checkBareIf(c.Src, c.Valid, c.Step); k != "" {
			r.Report(k, m, "C04/bare-if", &c)
		}
	})
	hx.RegisterReplayer("C04/expr", func(r *hx.Run, data json.RawMessage) {
		var c exprCase
		if err := json.Unmarshal(data, &c); err != nil {
			panic(err)
		}
		if k, m, _ := checkExpr(&c); k != "" {
			r.Report(k, m, "C04/expr", &c)
		}
		if yamlPlainSafe(c.Src) {
			if k, m := checkExprThroughLinter(c.Src, false); k != "" {
				r.Report(k, m, "C04/expr", &c)
			}
		}
	})
}

var c04TokAlpha = []string{"a", "true", "null", "f", "'s'", "1", "1.5", "(", ")", "[", "]", ".", "!", "==", "<", "&&", "||", "*", ","}
var c04ChAlpha = []byte("a_-019xeE+.' !=<>&|()[]*,}\"#")

func needSep(a, b string) bool {
	la, fb := a[len(a)-1], b[0]
	w := func(c byte) bool {
		return c == '_' || c == '-' || c == '.' || c == '\'' || c >= '0' && c <= '9' || c >= 'a' && c <= 'z' || c >= 'A' && c <= 'Z'
	}
	return w(la) && w(fb) || (la == '!' || la == '<' || la == '=' || la == '>') && fb == '=' || la == '&' && fb == '&' || la == '|' && fb == '|'
}

func TestC04(t *testing.T) {
	hx.Main(t, "C04", func(r *hx.Run) {
		r.Rule = "(1) all token sequences up to length 5 (thorough 6) over {a true null f 's' 1 1.5 ( ) [ ] . ! == < && || * ,} printed with single spaces and (where lexically safe) without spaces; (2) all character strings up to length 4 (thorough 5) over \"a_-019xeE+.' !=<>&|()[]*,}\\\"#\"; (3) random trees up to depth 6 printed with random whitespace/case/redundant parentheses (tree known by construction), single-token edits of them, number/string literal fuzz, sampled through the linter; (4) all token sequences up to length 3 (thorough 4) over {null true false 1 1.5 0x1 's' github.sha ( ) ! == != < && ||} as bare job-level and step-level `if:` conditions (sentence => no diagnostic other than expression type errors, non-sentence => syntax diagnostic on that line). Oracle: reference lexer+parser (harness/exprgen/ref.go) for accept/reject and structure modulo associativity; literal values; error offset/line/column. Non-trivial: in (1),(2) a string the reference accepts (distinct by construction); in (3) every generated text (trees are valid by construction, edits sit at the boundary of the language), distinct by text hash."
		r.Assumptions = []string{"number grammar: JSON numbers plus 0x hex, with the leading-zero rules pinned by the repository's own lexer tests (0x0123, 1e01, 0123, 1. are errors)", "chains of the same operator level are compared modulo associativity"}
		nviol := 0
		handle := func(c *exprCase) {
			k, m, acc := checkExpr(c)
			r.Eval()
			if acc {
				r.NTSeq(1)
			}
			if k != "" && r.Report(k, m, "C04/expr", c) {
				nviol++
			}
		}
		idx := int64(0)
		mine := func() bool { idx++; return int(idx%int64(hx.P.NShards)) == hx.P.Shard }
		// (1) token sequences
		maxTok := hx.N(5, 6)
		accByLen := map[int]int64{}
		var rec func(cur []string)
		rec = func(cur []string) {
			if nviol > 10 {
				return
			}
			if len(cur) > 0 && mine() {
				{
					src := strings.Join(cur, " ")
					c := &exprCase{Src: src}
					before := r.NonTrivial
					handle(c)
					if r.NonTrivial > before {
						accByLen[len(cur)]++
						if accByLen[len(cur)]%5000 == 1 {
							r.Sample(src)
						}
					}
					safe := true
					for i := 0; i+1 < len(cur); i++ {
						if needSep(cur[i], cur[i+1]) {
							safe = false
						}
					}
					if safe && len(cur) > 1 {
						handle(&exprCase{Src: strings.Join(cur, "")})
					}
				}
			}
			if len(cur) == maxTok {
				return
			}
			for _, tk := range c04TokAlpha {
				if maxTok == 6 && len(cur) >= 5 && (tk == "true" || tk == "1.5" || tk == "<") {
					continue // thorough: collapse equivalent tokens at the last position
				}
				rec(append(cur, tk))
			}
		}
		rec(nil)
		for l, n := range accByLen {
			r.ClassN(fmt.Sprintf("tokens/len=%d/accepted", l), n)
		}
		// (2) character strings
		maxCh := hx.N(4, 5)
		chAcc := int64(0)
		var recc func(cur []byte)
		recc = func(cur []byte) {
			if nviol > 10 {
				return
			}
			if len(cur) > 0 && mine() {
				before := r.NonTrivial
				handle(&exprCase{Src: string(cur)})
				if r.NonTrivial > before {
					chAcc++
					if chAcc%300 == 1 {
						r.Sample(string(cur))
					}
				}
			}
			if len(cur) == maxCh {
				return
			}
			for _, ch := range c04ChAlpha {
				recc(append(cur, ch))
			}
		}
		recc(nil)
		r.ClassN("chars/accepted", chAcc)
		r.Exhaustive = true
		r.Extra["exhaustive_scope"] = fmt.Sprintf("token sequences <= %d tokens, character strings <= %d characters", maxTok, maxCh)

		// (3) random trees, known structure
		precPairs := map[string]int64{}
		r.Check(t, "random-trees", hx.N(6000, 150000), func(rt *rapid.T) {
			n := eg.GenSyntax(rt, rapid.IntRange(1, 6).Draw(rt, "depth"))
			p := &eg.Printer{WS: eg.RapidWS(rt, true), Case: eg.RapidCase(rt), Extra: func() bool { return rapid.IntRange(0, 9).Draw(rt, "extra") == 0 }}
			src, _ := p.Print(n)
			c := &exprCase{Src: src, Want: n.Dump()}
			k, m, _ := checkExpr(c)
			r.Eval()
			r.NT(src)
			var walk func(n *eg.Node)
			walk = func(n *eg.Node) {
				for _, kid := range n.Kids {
					precPairs[n.Kind+">"+kid.Kind]++
					walk(kid)
				}
			}
			walk(n)
			r.Sample(src)
			if k != "" {
				r.Fail(rt, k, m, "C04/expr", c)
			}
		})
		r.Extra["parent>child node kind pairs (random trees)"] = precPairs
		// single-token edits (mostly the rejected side, at the boundary of the language)
		r.Check(t, "token-edits", hx.N(6000, 150000), func(rt *rapid.T) {
			n := eg.GenSyntax(rt, rapid.IntRange(1, 5).Draw(rt, "depth"))
			p := &eg.Printer{}
			p.Print(n)
			toks := append([]string(nil), p.Tokens()...)
			pool := []string{"(", ")", "[", "]", ".", ",", "!", "==", "&&", "||", "*", "a", "1", "'s'", "<", "f", "}", "=", "&", "|", "\"x\"", "0x", "1.", "'"}
			switch rapid.IntRange(0, 3).Draw(rt, "edit") {
			case 0: // delete
				i := rapid.IntRange(0, len(toks)-1).Draw(rt, "i")
				toks = append(toks[:i:i], toks[i+1:]...)
			case 1: // insert
				i := rapid.IntRange(0, len(toks)).Draw(rt, "i")
				toks = append(toks[:i:i], append([]string{rapid.SampledFrom(pool).Draw(rt, "tok")}, toks[i:]...)...)
			case 2: // replace
				i := rapid.IntRange(0, len(toks)-1).Draw(rt, "i")
				toks[i] = rapid.SampledFrom(pool).Draw(rt, "tok")
			default: // swap
				if len(toks) > 1 {
					i := rapid.IntRange(0, len(toks)-2).Draw(rt, "i")
					toks[i], toks[i+1] = toks[i+1], toks[i]
				}
			}
			src := strings.Join(toks, " ")
			c := &exprCase{Src: src}
			k, m, acc := checkExpr(c)
			r.Eval()
			r.NT(src)
			if acc {
				r.Class("token-edits/still-accepted")
			} else {
				r.Class("token-edits/rejected")
			}
			if k != "" {
				r.Fail(rt, k, m, "C04/expr", c)
			}
		})
		// literal fuzz
		r.Check(t, "literals", hx.N(20000, 400000), func(rt *rapid.T) {
			var lit string
			if rapid.Bool().Draw(rt, "num") {
				lit = rapid.StringMatching(`-?(0|0x|[0-9]{1,3}|[1-9][0-9]{8,20})[0-9a-fA-FxX]{0,3}(\.[0-9]{0,3})?([eE][+-]?[0-9]{0,4})?`).Draw(rt, "lit")
			} else {
				lit = "'" + rapid.StringMatching(`([a-z "}{$]|''|'){0,6}`).Draw(rt, "body") + "'"
			}
			src := lit
			switch rapid.IntRange(0, 3).Draw(rt, "ctx") {
			case 1:
				src = "a == " + lit
			case 2:
				src = "f(" + lit + ")"
			case 3:
				src = lit + " "
			}
			c := &exprCase{Src: src}
			k, m, acc := checkExpr(c)
			r.Eval()
			r.NT(src)
			if acc {
				r.Class("literals/accepted")
			} else {
				r.Class("literals/rejected")
			}
			if k != "" {
				r.Fail(rt, k, m, "C04/expr", c)
			}
		})
		// bare `if:` conditions (no ${{ }}): every token sequence up to length 3 (thorough 4) over an
		// alphabet of semantically harmless tokens, as job-level and step-level condition. YAML resolves
		// some of them to typed scalars (null, true, 1, 1.5, 0x1): they are sentences all the same.
		{
			alpha := []string{"null", "true", "false", "1", "1.5", "0x1", "'s'", "github.sha", "(", ")", "!", "==", "!=", "<", "&&", "||"}
			maxLen := hx.N(3, 4)
			var seq []string
			var rec func(depth int)
			nBare, nBareValid := int64(0), int64(0)
			rec = func(depth int) {
				if nviol > 20 {
					return
				}
				if depth > 0 && mine() {
					src := strings.Join(seq, " ")
					if c := src[0]; (c >= 'a' && c <= 'z' || c >= '0' && c <= '9' || c == '(') && yamlPlainSafe(src) {
						_, valid := eg.Parse(src + "}}")
						for _, step := range []bool{false, true} {
							k, m := checkBareIf(src, valid, step)
							r.Eval()
							nBare++
							if valid {
								r.NTSeq(1)
								nBareValid++
							}
							if k != "" && r.Report(k, m, "C04/bare-if", &bareIfCase{Src: src, Valid: valid, Step: step}) {
								nviol++
							}
						}
					}
				}
				if depth == maxLen {
					return
				}
				for _, a := range alpha {
					seq = append(seq, a)
					rec(depth + 1)
					seq = seq[:len(seq)-1]
				}
			}
			rec(0)
			r.Extra["bare_if_conditions_checked"] = nBare
			r.Extra["bare_if_conditions_valid"] = nBareValid
		}
		// through the linter
		r.Check(t, "through-linter", hx.N(1500, 30000), func(rt *rapid.T) {
			n := eg.GenSyntax(rt, rapid.IntRange(1, 4).Draw(rt, "depth"))
			p := &eg.Printer{WS: eg.RapidWS(rt, false)}
			p.Print(n)
			toks := append([]string(nil), p.Tokens()...)
			if rapid.Bool().Draw(rt, "break") {
				i := rapid.IntRange(0, len(toks)-1).Draw(rt, "i")
				toks[i] = rapid.SampledFrom([]string{"(", ")", "]", ",", "==", "&&", "}", "=", "'", "1.", "0x", "!"}).Draw(rt, "tok")
			}
			src := " " + strings.Join(toks, " ") + " "
			if !yamlPlainSafe("x"+src+"x") || strings.Contains(src, "}}") || strings.Contains(src, "${{") {
				r.Discard("not yaml-plain-safe")
				return
			}
			viaIf := rapid.Bool().Draw(rt, "if")
			if viaIf {
				s := strings.TrimSpace(src)
				if s == "" || !(s[0] >= 'a' && s[0] <= 'z' || s[0] == '(') || strings.Contains(s, "'") && strings.Count(s, "'")%2 == 1 {
					viaIf = false
				} else {
					src = s
				}
			}
			r.Eval()
			r.NT(src, fmt.Sprint(viaIf))
			if viaIf {
				r.Class("linter/if-condition")
			} else {
				r.Class("linter/placeholder")
			}
			c04Prefix = ""
			if !viaIf {
				c04Prefix = rapid.SampledFrom([]string{"", "", "text ", "x }} y ", "x{a:{b:1}} ", "${{ 'ok' }} ", "${{ 'ok' }} }} "}).Draw(rt, "prefix")
			}
			k, m := checkExprThroughLinter(src, viaIf)
			pfx := c04Prefix
			c04Prefix = ""
			if k != "" {
				r.Fail(rt, k+map[bool]string{true: "(text-before-placeholder)", false: ""}[pfx != ""], "text before the placeholder: "+pfx+"\n"+m, "C04/expr", &exprCase{Src: src})
			}
		})
	})
}
