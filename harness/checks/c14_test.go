package checks

import (
	"bytes"
	"encoding/json"
	"fmt"
	"path/filepath"
	"regexp"
	"sort"
	"strings"
	"testing"

	al "github.com/rhysd/actionlint"
	"pgregory.net/rapid"
	"verifharness/hx"
	"verifharness/world"
)

// ---- C14: calls are checked exactly against the callee's declared interface ---------------------------

type c14Case struct {
	Files    map[string]string `json:"files"`    // world files (repository root = world root)
	Caller   string            `json:"caller"`   // relative path of the caller workflow
	Together []string          `json:"together"` // other files linted in the same invocation (may be empty)
	Expect   []string          `json:"expect"`   // sorted "line|class|name"
	Kind     string            `json:"kind"`
}

var (
	reUndefInput   = regexp.MustCompile(`^input "([^"]+)" is not defined in (?:action|"[^"]+" reusable workflow)`)
	reMissingInput = regexp.MustCompile(`^missing input "([^"]+)" which is required by action`)
	reUndefInputWf = regexp.MustCompile(`^input "([^"]+)" is not defined in "[^"]+" reusable workflow`)
	reReqInputWf   = regexp.MustCompile(`^input "([^"]+)" is required by "[^"]+" reusable workflow`)
	reUndefSecret  = regexp.MustCompile(`^secret "([^"]+)" is not defined in "[^"]+" reusable workflow`)
	reReqSecret    = regexp.MustCompile(`^secret "([^"]+)" is required by "[^"]+" reusable workflow`)
	reTyped        = regexp.MustCompile(`^input "([^"]+)" is typed as \S+ by reusable workflow`)
)

func c14Classify(d Diag) (string, bool) {
	switch {
	case reMissingInput.MatchString(d.Msg):
		return fmt.Sprintf("%d|missing-required-input|%s", d.Line, strings.ToLower(reMissingInput.FindStringSubmatch(d.Msg)[1])), true
	case reUndefInputWf.MatchString(d.Msg):
		return fmt.Sprintf("%d|undefined-input|%s", d.Line, strings.ToLower(reUndefInputWf.FindStringSubmatch(d.Msg)[1])), true
	case reUndefInput.MatchString(d.Msg):
		return fmt.Sprintf("%d|undefined-input|%s", d.Line, strings.ToLower(reUndefInput.FindStringSubmatch(d.Msg)[1])), true
	case reReqInputWf.MatchString(d.Msg):
		return fmt.Sprintf("%d|missing-required-input|%s", d.Line, strings.ToLower(reReqInputWf.FindStringSubmatch(d.Msg)[1])), true
	case reUndefSecret.MatchString(d.Msg):
		return fmt.Sprintf("%d|undefined-secret|%s", d.Line, strings.ToLower(reUndefSecret.FindStringSubmatch(d.Msg)[1])), true
	case reReqSecret.MatchString(d.Msg):
		return fmt.Sprintf("%d|missing-required-secret|%s", d.Line, strings.ToLower(reReqSecret.FindStringSubmatch(d.Msg)[1])), true
	case reTyped.MatchString(d.Msg):
		return fmt.Sprintf("%d|unassignable-typed-value|%s", d.Line, strings.ToLower(reTyped.FindStringSubmatch(d.Msg)[1])), true
	case reUndefProp.MatchString(d.Msg):
		return fmt.Sprintf("%d|undefined-output|%s", d.Line, strings.ToLower(reUndefProp.FindStringSubmatch(d.Msg)[1])), true
	}
	return "", false
}

func checkInterface(c *c14Case) (key, msg string) {
	w := world.New()
	defer w.Cleanup()
	w.Repo("")
	for p, s := range c.Files {
		w.Write(p, s)
	}
	runs := [][]string{{c.Caller}}
	if len(c.Together) > 0 {
		runs = append(runs, append([]string{c.Caller}, c.Together...), append(append([]string{}, c.Together...), c.Caller))
	}
	for _, files := range runs {
		var got []string
		var all []Diag
		var pan any
		var ferr error
		func() {
			defer func() { pan = recover() }()
			l, _ := al.NewLinter(&bytes.Buffer{}, &al.LinterOptions{WorkingDir: w.Root})
			var paths []string
			for _, f := range files {
				paths = append(paths, filepath.Join(w.Root, f))
			}
			errs, err := l.LintFiles(paths, nil)
			ferr = err
			for _, e := range errs {
				if e.Filepath == c.Caller {
					all = append(all, Diag{e.Line, e.Column, e.Kind, e.Message, e.Filepath})
				}
			}
		}()
		if pan != nil || ferr != nil {
			return "C14/panic-or-fatal", fmt.Sprintf("%v %v\n%s", pan, ferr, c14Show(c))
		}
		for _, d := range all {
			if s, ok := c14Classify(d); ok {
				got = append(got, s)
			}
		}
		sort.Strings(got)
		if strings.Join(got, "\n") != strings.Join(c.Expect, "\n") {
			missing, extra := diffStrings(c.Expect, got)
			key := "C14/" + c.Kind
			if len(missing) > 0 {
				key += "/not-reported:" + strings.SplitN(missing[0], "|", 3)[1]
			} else {
				key += "/spurious:" + strings.SplitN(extra[0], "|", 3)[1]
			}
			if len(files) > 1 {
				key += "(callee-in-same-run)"
			}
			return key, fmt.Sprintf("files linted together: %v\nexpected but not reported: %v\nreported but not expected: %v\nall diagnostics of the caller: %v\n%s", files, missing, extra, diagStrings(all), c14Show(c))
		}
	}
	return "", ""
}

func c14Show(c *c14Case) string {
	var ks []string
	for k := range c.Files {
		ks = append(ks, k)
	}
	sort.Strings(ks)
	var b strings.Builder
	for _, k := range ks {
		fmt.Fprintf(&b, "### %s\n%s\n", k, c.Files[k])
	}
	return b.String()
}

func init() {
	hx.RegisterReplayer("C14/two-worlds", func(r *hx.Run, data json.RawMessage) {
		var cs []*c14Case
		if err := json.Unmarshal(data, &cs); err != nil || len(cs) != 2 {
			panic(fmt.Sprint("bad replay data ", err))
		}
		if k, m := checkInterfaceTwoRepos(cs[0], cs[1]); k != "" {
			r.Report(k, m, "C14/two-worlds", cs)
		}
	})
	hx.RegisterReplayer("C14/world", func(r *hx.Run, data json.RawMessage) {
		var c c14Case
		if err := json.Unmarshal(data, &c); err != nil {
			panic(err)
		}
		if k, m := checkInterface(&c); k != "" {
			r.Report(k, m, "C14/world", &c)
		}
	})
}

type c14gen struct {
	t *rapid.T
}

func (g *c14gen) spell(s string) string {
	switch rapid.IntRange(0, 3).Draw(g.t, "case") {
	case 0:
		return strings.ToUpper(s)
	case 1:
		return strings.ToUpper(s[:1]) + s[1:]
	}
	return s
}

// actionCallSite writes a step using the action and a following step referencing outputs; returns expectations.
// embedRef puts an output reference into one of several expression shapes: every operand of every
// operator is checked, whatever the checker knows about the value of the whole expression.
func (g *c14gen) embedRef(ref string) string {
	return fmt.Sprintf(rapid.SampledFrom([]string{"%s", "%s", "%s", "%s == 'true' && 'hit' || 'miss'", "(%s || 'a') && 'b'", "!%s || 'z'", "format('{0}', %s)", "'x' == %s", "fromJSON(%s)", "github.sha && %s", "!(%s && true) || false", "contains(%s, 'a')"}).Draw(g.t, "refshape"), ref)
}

func (g *c14gen) actionCallSite(y *ybuf, spec string, inputs map[string]bool, outputs []string, skipIn, skipOut bool) []string {
	t := g.t
	var exp []string
	// the keys of the step (uses, id, with) are written in a random order
	usesLine := 0
	var atUses []string
	first := true
	pfx := func() string {
		if first {
			first = false
			return "      - "
		}
		return "        "
	}
	var names []string
	for n := range inputs {
		names = append(names, n)
	}
	sort.Strings(names)
	var given []string
	for _, n := range names {
		required := inputs[n]
		p := 5
		if required {
			p = 7
		}
		if rapid.IntRange(0, 9).Draw(t, "give") < p {
			given = append(given, n)
		} else if required && !skipIn {
			atUses = append(atUses, "missing-required-input|"+strings.ToLower(n))
		}
	}
	nund := rapid.IntRange(0, 2).Draw(t, "nund")
	type kv struct{ k, v string }
	var with []kv
	for _, n := range given {
		with = append(with, kv{g.spell(n), "v"})
	}
	for i := 0; i < nund; i++ {
		with = append(with, kv{fmt.Sprintf("zz-undeclared-%d", i), "v"})
	}
	blocks := []func(){
		func() { usesLine = y.ln("%suses: %s", pfx(), spec) },
		func() { y.ln("%sid: s1", pfx()) },
		func() {
			if len(with) > 0 {
				y.ln("%swith:", pfx())
				// random order
				perm := rapid.Permutation(with).Draw(t, "order")
				for _, e := range perm {
					ln := y.ln("          %s: %s", e.k, e.v)
					if strings.HasPrefix(e.k, "zz-undeclared-") && !skipIn {
						exp = append(exp, fmt.Sprintf("%d|undefined-input|%s", ln, e.k))
					}
				}
			}
		},
	}
	order := []int{0, 1, 2}
	if rapid.Bool().Draw(t, "shufflestepkeys") {
		order = rapid.Permutation(order).Draw(t, "stepkeyorder")
	}
	for _, b := range order {
		blocks[b]()
	}
	for _, a := range atUses {
		exp = append(exp, fmt.Sprintf("%d|%s", usesLine, a))
	}
	// output references
	nref := rapid.IntRange(1, 3).Draw(t, "nref")
	for i := 0; i < nref; i++ {
		if len(outputs) > 0 && rapid.Bool().Draw(t, "declout") {
			o := outputs[rapid.IntRange(0, len(outputs)-1).Draw(t, "oi")]
			y.ln("      - run: echo ${{ %s }}", g.embedRef("steps.s1.outputs."+g.spell(o)))
		} else {
			ln := y.ln("      - run: echo ${{ %s }}", g.embedRef("steps.s1.outputs.zz_nosuch_output"))
			if !skipOut {
				exp = append(exp, fmt.Sprintf("%d|undefined-output|zz_nosuch_output", ln))
			}
		}
	}
	return exp
}

// checkInterfaceTwoRepos puts the two cases into sibling repositories r1 and r2 and lints both callers
// in one invocation (both argument orders).
func checkInterfaceTwoRepos(c1, c2 *c14Case) (key, msg string) {
	w := world.New()
	defer w.Cleanup()
	cases := map[string]*c14Case{"r1": c1, "r2": c2}
	for dir, c := range cases {
		w.Repo(dir)
		for p, s := range c.Files {
			w.Write(filepath.Join(dir, p), s)
		}
	}
	for _, order := range [][]string{{"r1", "r2"}, {"r2", "r1"}} {
		got := map[string][]string{}
		var pan any
		var ferr error
		func() {
			defer func() { pan = recover() }()
			l, _ := al.NewLinter(&bytes.Buffer{}, &al.LinterOptions{WorkingDir: w.Root})
			var paths []string
			for _, dir := range order {
				paths = append(paths, filepath.Join(w.Root, dir, cases[dir].Caller))
			}
			errs, err := l.LintFiles(paths, nil)
			ferr = err
			for _, e := range errs {
				d := Diag{e.Line, e.Column, e.Kind, e.Message, e.Filepath}
				if s, ok := c14Classify(d); ok {
					dir := strings.SplitN(filepath.ToSlash(e.Filepath), "/", 2)[0]
					got[dir] = append(got[dir], s)
				}
			}
		}()
		if pan != nil || ferr != nil {
			return "C14/panic-or-fatal", fmt.Sprintf("%v %v", pan, ferr)
		}
		for dir, c := range cases {
			g := got[dir]
			sort.Strings(g)
			if strings.Join(g, "\n") != strings.Join(c.Expect, "\n") {
				missing, extra := diffStrings(c.Expect, g)
				return "C14/two-repositories-in-one-invocation", fmt.Sprintf("argument order %v: caller of %s\nexpected but not reported: %v\nreported but not expected: %v\n--- r1\n%s\n--- r2\n%s", order, dir, missing, extra, c14Show(c1), c14Show(c2))
			}
		}
	}
	return "", ""
}

// genLocalActionCase draws a local action (metadata, location, spelling of the spec) and a call site.
func genLocalActionCase(rt *rapid.T) (*c14Case, string, string, string, int) {
	g := &c14gen{t: rt}
	var meta strings.Builder
	meta.WriteString("name: my action\ndescription: d\n")
	inputs := map[string]bool{}
	nin := rapid.IntRange(0, 4).Draw(rt, "nin")
	if nin > 0 {
		meta.WriteString("inputs:\n")
	}
	for i := 0; i < nin; i++ {
		n := fmt.Sprintf("in%d", i)
		fmt.Fprintf(&meta, "  %s:\n    description: d\n", g.spell(n))
		req := rapid.SampledFrom([]string{"", "true", "false"}).Draw(rt, "req")
		def := rapid.Bool().Draw(rt, "def")
		if req != "" {
			fmt.Fprintf(&meta, "    required: %s\n", req)
		}
		if def {
			fmt.Fprintf(&meta, "    default: %s\n", rapid.SampledFrom([]string{"x", "''", "0", "false"}).Draw(rt, "defv"))
		}
		inputs[n] = req == "true" && !def
	}
	var outs []string
	nout := rapid.IntRange(0, 3).Draw(rt, "nout")
	using := rapid.SampledFrom([]string{"node20", "docker", "composite"}).Draw(rt, "using")
	if nout > 0 {
		meta.WriteString("outputs:\n")
	}
	for i := 0; i < nout; i++ {
		n := fmt.Sprintf("out%d", i)
		outs = append(outs, n)
		fmt.Fprintf(&meta, "  %s:\n    description: d\n", g.spell(n))
		if using == "composite" {
			meta.WriteString("    value: ${{ steps.x.outputs.y }}\n")
		}
	}
	files := map[string]string{}
	// where the action lives and how the step spells it: the repository root ("./"), one level,
	// several levels; with or without a trailing slash; action.yml or action.yaml
	dir := rapid.SampledFrom([]string{"act/", "", "sub/dir/act/", ".github/actions/x/"}).Draw(rt, "dir")
	spec := "./" + strings.TrimSuffix(dir, "/")
	if dir != "" && rapid.IntRange(0, 3).Draw(rt, "slash") == 0 {
		spec += "/"
	}
	metaName := rapid.SampledFrom([]string{"action.yml", "action.yml", "action.yaml"}).Draw(rt, "metaName")
	switch using {
	case "node20":
		meta.WriteString("runs:\n  using: node20\n  main: index.js\n")
		files[dir+"index.js"] = ""
	case "docker":
		meta.WriteString("runs:\n  using: docker\n  image: Dockerfile\n")
		files[dir+"Dockerfile"] = "FROM alpine\n"
	default:
		meta.WriteString("runs:\n  using: composite\n  steps:\n    - run: echo\n      shell: bash\n      id: x\n")
	}
	files[dir+metaName] = meta.String()
	y := &ybuf{}
	y.ln("on: push")
	y.ln("jobs:")
	y.ln("  a:")
	y.ln("    runs-on: ubuntu-latest")
	y.ln("    steps:")
	exp := g.actionCallSite(y, spec, inputs, outs, false, false)
	sort.Strings(exp)
	files[".github/workflows/w.yml"] = y.b.String()
	c := &c14Case{Files: files, Caller: ".github/workflows/w.yml", Expect: exp, Kind: "local-action"}
	return c, meta.String(), using, spec, nin
}

func TestC14(t *testing.T) {
	hx.Main(t, "C14", func(r *hx.Run) {
		r.Rule = "(a) every action spec of the bundled popular-actions table (complete enumeration, several call sites each): random subset of declared inputs in random letter case and order, 0-2 undeclared inputs, required inputs dropped, references to declared and undeclared outputs, plain and inside conditions / negations / calls (every operand is examined); (b) generated well-formed local actions (inputs with every required/default combination, outputs, node/docker/composite; at the repository root, one or several levels down, with trailing slash, action.yml / action.yaml), alone and as two sibling repositories with the same relative paths linted in one invocation; (c) generated local reusable workflows (typed inputs with required/default, required/optional secrets, outputs) with call sites (subset, extra names, secrets: inherit, typed literal / expression / templated values) and needs.<job>.outputs references, linted alone and together with the callee in both argument orders. Oracle: expected set of {undefined input/secret at its key, missing required at uses, undefined output at the reference, unassignable typed value at the value} computed from the generated interface (b, c) or the exported table (a). Non-trivial = call site with >= 1 declared and >= 1 violating name; distinct = files hash."
		r.Assumptions = []string{"for (a) the exported PopularActions table is the specification of the bundled data", "typed-value clause asserted only for: number <- non-numeric string / bool / null literal or templated text (reported); string <- null (reported); number <- numeric literal, string <- string/templated text, boolean <- true|false, anything <- expression of type any (not reported)"}
		// (a) popular actions, complete enumeration
		specs := make([]string, 0, len(al.PopularActions))
		for s := range al.PopularActions {
			specs = append(specs, s)
		}
		sort.Strings(specs)
		r.Extra["popular_action_specs"] = len(specs)
		mySpecs := []string{}
		for i, s := range specs {
			if i%hx.P.NShards == hx.P.Shard {
				mySpecs = append(mySpecs, s)
			}
		}
		covered := 0
		sites := hx.N(2, 6)
		if len(mySpecs) > 0 {
			r.Check(t, "popular-actions", len(mySpecs)*sites, func(rt *rapid.T) {
				idx := covered % len(mySpecs)
				covered++
				spec := mySpecs[idx]
				meta := al.PopularActions[spec]
				g := &c14gen{t: rt}
				y := &ybuf{}
				y.ln("on: push")
				y.ln("jobs:")
				y.ln("  a:")
				y.ln("    runs-on: ubuntu-latest")
				y.ln("    steps:")
				inputs := map[string]bool{}
				for _, in := range meta.Inputs {
					inputs[in.Name] = in.Required
				}
				var outs []string
				for _, o := range meta.Outputs {
					outs = append(outs, o.Name)
				}
				sort.Strings(outs)
				skipOut := meta.SkipOutputs || strings.HasPrefix(spec, "actions/github-script@")
				exp := g.actionCallSite(y, spec, inputs, outs, meta.SkipInputs, skipOut)
				sort.Strings(exp)
				c := &c14Case{Files: map[string]string{".github/workflows/w.yml": y.b.String()}, Caller: ".github/workflows/w.yml", Expect: exp, Kind: "popular-action"}
				r.Eval()
				if len(exp) > 0 && len(inputs) > 0 {
					r.NT(c14Show(c))
				}
				r.Class("popular-action/call-site")
				for _, e := range exp {
					r.Class("popular-action/expected:" + strings.SplitN(e, "|", 3)[1])
				}
				if covered%40 == 1 {
					r.Sample(map[string]any{"spec": spec, "workflow": y.b.String(), "expected": exp})
				}
				if k, m := checkInterface(c); k != "" {
					r.Fail(rt, k, m, "C14/world", c)
				}
			})
		}
		r.Extra["popular_action_specs_enumerated_by_this_run"] = len(mySpecs)
		// (b) local actions
		r.Check(t, "local-actions", hx.N(250, 6000), func(rt *rapid.T) {
			c, metaText, using, spec, nin := genLocalActionCase(rt)
			exp := c.Expect
			r.Eval()
			if len(exp) > 0 && nin > 0 {
				r.NT(c14Show(c))
			}
			r.Class("local-action/" + using)
			r.Class("local-action/spec:" + spec)
			for _, e := range exp {
				r.Class("local-action/expected:" + strings.SplitN(e, "|", 3)[1])
			}
			r.Sample(map[string]any{"action.yml": metaText, "workflow": c.Files[c.Caller], "expected": exp})
			if k, m := checkInterface(c); k != "" {
				r.Fail(rt, k, m, "C14/world", c)
			}
		})
		// (b2) two repositories in one invocation: the same relative action path, different interfaces;
		// every caller is checked against the action of its own repository, in both argument orders
		r.Check(t, "local-actions-two-repositories", hx.N(120, 3000), func(rt *rapid.T) {
			c1, _, _, _, _ := genLocalActionCase(rt)
			c2, _, _, _, _ := genLocalActionCase(rt)
			r.Eval()
			if len(c1.Expect)+len(c2.Expect) > 0 {
				r.NT(c14Show(c1), c14Show(c2))
			}
			r.Class("two-repositories")
			r.Sample(map[string]any{"repo1": c14Show(c1), "repo2": c14Show(c2)})
			if k, m := checkInterfaceTwoRepos(c1, c2); k != "" {
				r.Fail(rt, k, m, "C14/two-worlds", []*c14Case{c1, c2})
			}
		})
		// (c) local reusable workflows
		r.Check(t, "reusable-workflows", hx.N(400, 8000), func(rt *rapid.T) {
			g := &c14gen{t: rt}
			var cal strings.Builder
			cal.WriteString("on:\n  workflow_call:\n")
			type inp struct {
				name, ty string
				required bool
			}
			var ins []inp
			nin := rapid.IntRange(0, 4).Draw(rt, "nin")
			if nin > 0 {
				cal.WriteString("    inputs:\n")
			}
			for i := 0; i < nin; i++ {
				n := fmt.Sprintf("in%d", i)
				ty := rapid.SampledFrom([]string{"string", "number", "boolean"}).Draw(rt, "ty")
				fmt.Fprintf(&cal, "      %s:\n        type: %s\n", g.spell(n), ty)
				req := rapid.SampledFrom([]string{"", "true", "false"}).Draw(rt, "req")
				def := rapid.Bool().Draw(rt, "def")
				if req != "" {
					fmt.Fprintf(&cal, "        required: %s\n", req)
				}
				if def {
					fmt.Fprintf(&cal, "        default: %s\n", map[string]string{"string": "x", "number": "1", "boolean": "true"}[ty])
				}
				ins = append(ins, inp{n, ty, req == "true" && !def})
			}
			type sec struct {
				name     string
				required bool
			}
			var secs []sec
			nsec := rapid.IntRange(0, 3).Draw(rt, "nsec")
			if nsec > 0 {
				cal.WriteString("    secrets:\n")
			}
			for i := 0; i < nsec; i++ {
				n := fmt.Sprintf("sec%d", i)
				req := rapid.SampledFrom([]string{"", "true", "false"}).Draw(rt, "sreq")
				if req == "" {
					fmt.Fprintf(&cal, "      %s:\n        description: d\n", g.spell(n))
				} else {
					fmt.Fprintf(&cal, "      %s:\n        required: %s\n", g.spell(n), req)
				}
				secs = append(secs, sec{n, req == "true"})
			}
			var outs []string
			nout := rapid.IntRange(0, 2).Draw(rt, "nout")
			if nout > 0 {
				cal.WriteString("    outputs:\n")
			}
			for i := 0; i < nout; i++ {
				n := fmt.Sprintf("out%d", i)
				outs = append(outs, n)
				fmt.Fprintf(&cal, "      %s:\n        value: x\n", g.spell(n))
			}
			cal.WriteString("jobs:\n  j:\n    runs-on: ubuntu-latest\n    steps:\n      - run: echo\n")
			// caller
			y := &ybuf{}
			var exp []string
			y.ln("on: push")
			y.ln("jobs:")
			y.ln("  call:")
			// uses / with / secrets are written in a random order; what is reported at the uses line is
			// collected first and placed once the line is known
			usesLine := 0
			var atUses []string
			type kv struct{ k, v, note string }
			var with []kv
			for _, in := range ins {
				if rapid.IntRange(0, 9).Draw(rt, "give") < 6 {
					// typed value
					var v, note string
					switch in.ty {
					case "number":
						v = rapid.SampledFrom([]string{"42", "1.5", "abc", "true", "null", "${{ 1 }}", "${{ fromJSON(github.event.client_payload.n) }}", "pre-${{ github.run_number }}", "${{ 4 }}2", "${{ 'x' }}", "${{ 1 }}${{ 2 }}", "${{ github.run_id }}-${{ github.run_attempt }}"}).Draw(rt, "nv")
						switch v {
						case "abc", "true", "null", "pre-${{ github.run_number }}", "${{ 4 }}2", "${{ 'x' }}", "${{ 1 }}${{ 2 }}", "${{ github.run_id }}-${{ github.run_attempt }}":
							note = "bad"
						}
					case "string":
						v = rapid.SampledFrom([]string{"abc", "null", "${{ github.sha }}", "v=${{ true }}", "${{ fromJSON(github.event.client_payload.n) }}", "x y", "${{ github.ref_name }}-${{ github.run_id }}", "${{ 1 }} and ${{ true }}"}).Draw(rt, "sv")
						if v == "null" {
							note = "bad"
						}
					default:
						v = rapid.SampledFrom([]string{"true", "false", "${{ true }}", "${{ github.event_name == 'push' }}", "${{ fromJSON(github.event.client_payload.n) }}"}).Draw(rt, "bv")
					}
					with = append(with, kv{g.spell(in.name), v, note})
				} else if in.required {
					atUses = append(atUses, "missing-required-input|"+in.name)
				}
			}
			for i := 0; i < rapid.IntRange(0, 2).Draw(rt, "nund"); i++ {
				with = append(with, kv{fmt.Sprintf("zz-undeclared-%d", i), "v", "undeclared"})
			}
			emitWith := func() {
				if len(with) > 0 {
					y.ln("    with:")
					for _, e := range rapid.Permutation(with).Draw(rt, "worder") {
						ln := y.ln("      %s: %s", e.k, e.v)
						switch e.note {
						case "undeclared":
							exp = append(exp, fmt.Sprintf("%d|undefined-input|%s", ln, e.k))
						case "bad":
							exp = append(exp, fmt.Sprintf("%d|unassignable-typed-value|%s", ln, strings.ToLower(e.k)))
						}
					}
				}
			}
			inherit := rapid.IntRange(0, 3).Draw(rt, "inherit") == 0
			var ss []kv
			if !inherit {
				for _, s := range secs {
					if rapid.IntRange(0, 9).Draw(rt, "sgive") < 6 {
						ss = append(ss, kv{g.spell(s.name), "${{ secrets.X }}", ""})
					} else if s.required {
						atUses = append(atUses, "missing-required-secret|"+s.name)
					}
				}
				for i := 0; i < rapid.IntRange(0, 2).Draw(rt, "nsund"); i++ {
					ss = append(ss, kv{fmt.Sprintf("zz-undeclared-secret-%d", i), "x", "undeclared"})
				}
			}
			emitSecrets := func() {
				if inherit {
					y.ln("    secrets: inherit")
				} else if len(ss) > 0 {
					y.ln("    secrets:")
					for _, e := range rapid.Permutation(ss).Draw(rt, "sorder") {
						ln := y.ln("      %s: %s", e.k, e.v)
						if e.note == "undeclared" {
							exp = append(exp, fmt.Sprintf("%d|undefined-secret|%s", ln, e.k))
						}
					}
				}
			}
			emitUses := func() { usesLine = y.ln("    uses: ./.github/workflows/callee.yml") }
			blocks := []func(){emitUses, emitWith, emitSecrets}
			order := []int{0, 1, 2}
			if rapid.Bool().Draw(rt, "shufflecallkeys") {
				order = rapid.Permutation(order).Draw(rt, "callkeyorder")
			}
			for _, b := range order {
				blocks[b]()
			}
			if order[0] != 0 {
				r.Class("reusable-workflow/with-or-secrets-before-uses")
			}
			for _, a := range atUses {
				exp = append(exp, fmt.Sprintf("%d|%s", usesLine, a))
			}
			y.ln("  after:")
			y.ln("    needs: [call]")
			y.ln("    runs-on: ubuntu-latest")
			y.ln("    steps:")
			for i := 0; i < rapid.IntRange(1, 3).Draw(rt, "nref"); i++ {
				if len(outs) > 0 && rapid.Bool().Draw(rt, "declout") {
					y.ln("      - run: echo ${{ %s }}", g.embedRef("needs.call.outputs."+g.spell(outs[rapid.IntRange(0, len(outs)-1).Draw(rt, "oi")])))
				} else {
					ln := y.ln("      - run: echo ${{ %s }}", g.embedRef("needs.call.outputs.zz_nosuch_output"))
					exp = append(exp, fmt.Sprintf("%d|undefined-output|zz_nosuch_output", ln))
				}
			}
			sort.Strings(exp)
			c := &c14Case{Files: map[string]string{".github/workflows/callee.yml": cal.String(), ".github/workflows/caller.yml": y.b.String()}, Caller: ".github/workflows/caller.yml", Together: []string{".github/workflows/callee.yml"}, Expect: exp, Kind: "reusable-workflow"}
			r.Eval()
			if len(exp) > 0 && (nin > 0 || nsec > 0) {
				r.NT(c14Show(c))
			}
			r.Class("reusable-workflow/call-site")
			if inherit {
				r.Class("reusable-workflow/secrets-inherit")
			}
			for _, e := range exp {
				r.Class("reusable-workflow/expected:" + strings.SplitN(e, "|", 3)[1])
			}
			r.Sample(map[string]any{"callee": cal.String(), "caller": y.b.String(), "expected": exp})
			if k, m := checkInterface(c); k != "" {
				r.Fail(rt, k, m, "C14/world", c)
			}
		})
	})
}
