package checks

import (
	"bytes"
	"encoding/base64"
	"encoding/json"
	"fmt"
	"os"
	"path/filepath"
	"regexp"
	"sort"
	"strings"
	"testing"
	"time"

	al "github.com/rhysd/actionlint"
	"pgregory.net/rapid"
	"verifharness/hx"
	"verifharness/wf"
	"verifharness/world"
	ye "verifharness/yamlemit"
)

// ---- C01: no input makes actionlint panic, crash or hang ------------------------------------------

type c01Case struct {
	Channel string `json:"channel"` // workflow | workflow-two-files | workflow-two-files-no-repo | action | reusable | config | config-main
	B64     string `json:"input_base64"`
	Text    string `json:"input_text,omitempty"` // same bytes, for the reader (lossy when not UTF-8)
	Caller  string `json:"caller,omitempty"`     // action / reusable: the workflow using the input (default: a fixed one)
}

func (c *c01Case) bytes() []byte {
	b, _ := base64.StdEncoding.DecodeString(c.B64)
	return b
}

func newC01Case(ch string, b []byte) *c01Case {
	return &c01Case{Channel: ch, B64: base64.StdEncoding.EncodeToString(b), Text: strings.ToValidUTF8(string(b), "\uFFFD")}
}

var reStackFrame = regexp.MustCompile(`actionlint\.(\(\*?[A-Za-z0-9_]+\)\.)?[A-Za-z0-9_]+`)

type c01Outcome struct {
	panicVal any
	stack    string
	fatal    string
	exit     int
	stderr   string
	diags    int
}

const c01CallerWithAction = "on: push\njobs:\n  a:\n    runs-on: ubuntu-latest\n    steps:\n      - uses: ./act\n        id: s1\n        with:\n          foo: bar\n      - run: echo ${{ steps.s1.outputs.out1 }} ${{ steps.s1.outputs.nosuch }}\n"
const c01CallerOfReusable = "on: push\njobs:\n  call:\n    uses: ./.github/workflows/r.yml\n    with:\n      in1: a\n      nosuch: b\n    secrets:\n      s1: x\n  after:\n    needs: [call]\n    runs-on: ubuntu-latest\n    steps:\n      - run: echo ${{ needs.call.outputs.o1 }} ${{ needs.call.outputs.nosuch }}\n"

func c01MapKeys(n *ye.Node, path ...string) []string {
	for _, k := range path {
		if n == nil || n.Kind != ye.Map {
			return nil
		}
		n = n.Get(k)
	}
	if n == nil || n.Kind != ye.Map {
		return nil
	}
	var ks []string
	for _, k := range n.Keys {
		if k.Kind == ye.Scalar && k.Val != "" && !strings.ContainsAny(k.Val, ":#'\"\n{}[],&*!|>%@` ") {
			ks = append(ks, k.Val)
		}
	}
	return ks
}

// c01CallerFor builds a caller of the (unmutated) reusable workflow: all declared inputs and secrets
// are passed, all declared outputs are read.
func c01CallerFor(callee *ye.Node) string {
	var b strings.Builder
	b.WriteString("on: push\njobs:\n  call:\n    uses: ./.github/workflows/r.yml\n")
	if ins := c01MapKeys(callee, "on", "workflow_call", "inputs"); len(ins) > 0 {
		b.WriteString("    with:\n")
		for i, n := range ins {
			fmt.Fprintf(&b, "      %s: %s\n", n, []string{"${{ github.ref_name }}-${{ github.run_id }}", "a", "x ${{ 1 }} y ${{ true }}", "1", "${{ github.sha }}", "true"}[(i+len(ins))%6])
		}
	}
	if secs := c01MapKeys(callee, "on", "workflow_call", "secrets"); len(secs) > 0 {
		b.WriteString("    secrets:\n")
		for _, n := range secs {
			fmt.Fprintf(&b, "      %s: ${{ secrets.X }}\n", n)
		}
	}
	b.WriteString("  after:\n    needs: [call]\n    runs-on: ubuntu-latest\n    steps:\n      - run: echo ${{ needs.call.outputs.nosuch }}\n")
	for _, n := range c01MapKeys(callee, "on", "workflow_call", "outputs") {
		fmt.Fprintf(&b, "      - run: echo ${{ needs.call.outputs.%s }}\n", n)
	}
	return b.String()
}

// c01ActionCallerFor: the same for a local action.
func c01ActionCallerFor(meta *ye.Node) string {
	var b strings.Builder
	b.WriteString("on: push\njobs:\n  a:\n    runs-on: ubuntu-latest\n    steps:\n      - uses: ./act\n        id: s1\n")
	if ins := c01MapKeys(meta, "inputs"); len(ins) > 0 {
		b.WriteString("        with:\n")
		for _, n := range ins {
			fmt.Fprintf(&b, "          %s: x\n", n)
		}
	}
	b.WriteString("      - run: echo ${{ steps.s1.outputs.nosuch }}\n")
	for _, n := range c01MapKeys(meta, "outputs") {
		fmt.Fprintf(&b, "      - run: echo ${{ steps.s1.outputs.%s }}\n", n)
	}
	return b.String()
}

// c01Exec runs one input on its channel; every Go panic is recovered here (in the harness, not in
// the code under test) and reported.
func c01Exec(c *c01Case) (out c01Outcome) {
	defer func() {
		if p := recover(); p != nil {
			out.panicVal = p
			out.stack = stackTop()
		}
	}()
	b := c.bytes()
	switch c.Channel {
	case "workflow":
		l := newLinter(nil)
		errs, err := l.Lint("<stdin>", b, nil)
		out.diags = len(errs)
		if err != nil {
			out.fatal = err.Error()
		}
	case "workflow-two-files", "workflow-two-files-no-repo":
		w := world.New()
		defer w.Cleanup()
		if c.Channel == "workflow-two-files" {
			w.Repo("")
		}
		p1 := w.Write(".github/workflows/a.yml", string(b))
		p2 := w.Write(".github/workflows/b.yml", "on: push\njobs:\n  a:\n    uses: ./a@b\n  b:\n    runs-on: ubuntu-latest\n    steps:\n      - uses: ./act\n")
		l, _ := al.NewLinter(&bytes.Buffer{}, &al.LinterOptions{WorkingDir: w.Root})
		errs, err := l.LintFiles([]string{p1, p2}, nil)
		out.diags = len(errs)
		if err != nil {
			out.fatal = err.Error()
		}
	case "action":
		w := world.New()
		defer w.Cleanup()
		w.Repo("")
		w.Write("act/action.yml", string(b))
		caller := c01CallerWithAction
		if c.Caller != "" {
			caller = c.Caller
		}
		p := w.Write(".github/workflows/w.yml", caller)
		l, _ := al.NewLinter(&bytes.Buffer{}, &al.LinterOptions{WorkingDir: w.Root})
		errs, err := l.LintFile(p, nil)
		out.diags = len(errs)
		if err != nil {
			out.fatal = err.Error()
		}
	case "reusable":
		w := world.New()
		defer w.Cleanup()
		w.Repo("")
		p2 := w.Write(".github/workflows/r.yml", string(b))
		caller := c01CallerOfReusable
		if c.Caller != "" {
			caller = c.Caller
		}
		p := w.Write(".github/workflows/w.yml", caller)
		l, _ := al.NewLinter(&bytes.Buffer{}, &al.LinterOptions{WorkingDir: w.Root})
		// both orders: the callee's interface comes from the file or from the in-memory AST
		errs, err := l.LintFiles([]string{p, p2}, nil)
		out.diags = len(errs)
		if err != nil {
			out.fatal = err.Error()
		}
		l2, _ := al.NewLinter(&bytes.Buffer{}, &al.LinterOptions{WorkingDir: w.Root})
		if _, err := l2.LintFile(p, nil); err != nil {
			out.fatal += " | " + err.Error()
		}
	case "config":
		_, err := al.ParseConfig(b)
		if err != nil {
			out.fatal = err.Error()
		}
	case "config-main":
		w := world.New()
		defer w.Cleanup()
		w.Repo("")
		w.Write(".github/actionlint.yaml", string(b))
		p := w.Write(".github/workflows/w.yml", "on: push\njobs:\n  a:\n    runs-on: [self-hosted, my-label]\n    steps:\n      - run: echo ${{ vars.FOO }}\n")
		var so, se bytes.Buffer
		cmd := al.Command{Stdin: strings.NewReader(""), Stdout: &so, Stderr: &se}
		out.exit = cmd.Main([]string{"actionlint", "-no-color", p})
		out.stderr = se.String()
	}
	return out
}

// c01Run executes with a watchdog: a case that does not return within 20 s is retried twice before
// being called a hang.
func c01Run(c *c01Case) (key, msg string, diags int) {
	for attempt := 0; ; attempt++ {
		ch := make(chan c01Outcome, 1)
		go func() { ch <- c01Exec(c) }()
		select {
		case o := <-ch:
			if o.panicVal != nil {
				frame := reStackFrame.FindString(o.stack)
				pv := fmt.Sprint(o.panicVal)
				if len(pv) > 80 {
					pv = pv[:80]
				}
				return "C01/panic@" + frame, fmt.Sprintf("channel %s: Go panic: %v\nstack: %s\n--- input\n%s", c.Channel, o.panicVal, o.stack, c.Text), 0
			}
			if c.Channel == "config-main" {
				if o.exit != 0 && o.exit != 1 && o.exit != 3 {
					return "C01/unexpected-exit-status", fmt.Sprintf("exit status %d, stderr %q\n%s", o.exit, o.stderr, c.Text), 0
				}
				if strings.Contains(o.stderr, "panic:") || strings.Contains(o.stderr, "fatal error:") {
					return "C01/panic-in-stderr", fmt.Sprintf("stderr %q\n%s", o.stderr, c.Text), 0
				}
			}
			return "", "", o.diags
		case <-time.After(20 * time.Second):
			if attempt >= 2 {
				return "C01/hang", fmt.Sprintf("channel %s: no result within 20 s (3 attempts)\n%s", c.Channel, c.Text), 0
			}
		}
	}
}

func init() {
	hx.RegisterReplayer("C01/input", func(r *hx.Run, data json.RawMessage) {
		var c c01Case
		if err := json.Unmarshal(data, &c); err != nil {
			panic(err)
		}
		if k, m, _ := c01Run(&c); k != "" {
			r.Report(k, m, "C01/input", &c)
		}
	})
}

// ---- hostile mutations -------------------------------------------------------------------------------

var hostileScalars = []string{"", "~", "null", "nan", ".nan", ".NaN", ".inf", "-.inf", "0x", "0x1G", "1e999", "-1e999", "0o17", "1_000", "y", "n", "yes", "<<", "!!binary", "=", "0", "-0", "-1", "1.5", "9223372036854775808", "-9223372036854775809", "99999999999999999999999999", "1e-999", "true", "false", "TRUE", "${{", "}}", "${{ }}", "${{ github. }}", "${{ '", "${{ a[ }}", "${{ ((((((((((((((((((((((((((((((((((((((((( }}", "${{ !!!!!!!!!!!!!!!!!!!!!!!!!!!!!!!!!!!!!!!!!!!!!!!!!!a }}", "${{ a.*.*.*.*.*.*.*.*[0][0][0][0] }}", "${{ format('{', 1) }}", "${{ format('{0', 1) }}", "${{ format('{99999999999999999999}', 1) }}", "${{ format('}}{{', 1) }}", "${{ fromJSON('{') }}", "${{ fromJSON('[[[[[[[[[[[[[[[[[[[[[[[[[[[[[[[[[[[[[[[[[[[[[[[[[[') }}", "${{ fromJSON('{\"a\":{\"a\":{\"a\":{\"a\":null}}}}').a.a.a.a.a }}", "${{ 0x }}", "${{ 1e }}", "${{ 1. }}", "${{ -  }}", "${{ 'a'.b.c['d'].* }}", "${{ github['event']['x'][0][''] }}", "${{ contains() }}", "${{ hashFiles() }}", "${{ toJSON(toJSON(toJSON(toJSON(github)))) }}", "\x00", "\x1b[31m", "a\nb", "a\rb", "\u2028", "\u0085", "\ufeff", "%!s(", " [x]", ": 1:1: ", "*", "&", "*x", "&x", "!", "|", ">", "@", "`", "?", "- ", ": ", "#", "[", "]", "{", "}", ",", "'", "\"", "\\", "%", "docker://", "./", "./.", "../..", "a@", "@b", "a/b@", "a/b/c/d/e@f", "./a@b", "./.github/workflows/", "0 0 * * *", "* * * *", "@yearly", "*/0 * * * *", "60 24 32 13 8", "a-b-c", "A B", "=x", "1abc", "テスト用のワークフローです ${{ github.evnt }}", "日本語日本語日本語日本語 ${{ github. }}", "ééééééééééééééééé ${{ zzz }} x", "😀😀😀😀😀😀😀😀 ${{ format('{0}') }}", "\u202e\u202e\u202e\u202e\u202e\u202e ${{ 1 == }}", "x }} ${{ github. }}", "'{\"a\":{\"b\":1}}' ${{ github.sha == }}", "${{ github.sha }} }} ${{ 1 + 2 }}", "echo ::set-output name=a::b", "echo ::Set-Output name=a::b", "::SAVE-STATE name=a::b", "::set-env name=A::b", "::SET-ENV name=A::b", "::add-path::/x", "::ADD-PATH::/x", "BASH", "Python", "PWSH {0}", "Ubuntu-Latest", "WINDOWS-2022", "SELF-HOSTED", "PUSH", "Pull_Request", "READ-ALL", "Write", "DOCKER://a:b", "Actions/Checkout@V4", "NODE20", "Composite", "Inherit", "STRING", "Boolean", "CHOICE", strings.Repeat("a", 300), strings.Repeat("${{ github.sha }}", 50), strings.Repeat("[", 200), strings.Repeat("'", 101)}

var hostileTags = []string{"!!float", "!!int", "!!bool", "!!null", "!!str", "!!binary", "!!map", "!!seq", "!foo", "!", "!!timestamp", "!!merge", "!!set", "!!omap"}

func hostileNode(t *rapid.T, depth int) *ye.Node {
	switch rapid.IntRange(0, 15).Draw(t, "hk") {
	case 15: // separator soup: what the parsers of uses / image / cron / glob / port values split on
		var b strings.Builder
		for i := rapid.IntRange(1, 10).Draw(t, "nsoup"); i > 0; i-- {
			b.WriteString(rapid.SampledFrom([]string{"a", "b", "v1", "/", "@", ".", "..", ":", "-", "~", "\\", "*", " ", "#", "./", "docker://", "=", ",", "|", "%", "+", "0", "9"}).Draw(t, "soup"))
		}
		return ye.Q(b.String(), rapid.SampledFrom([]ye.Style{ye.Single, ye.Double}).Draw(t, "soupst"))
	case 14: // nodes that are null in some sense
		return &ye.Node{Kind: ye.Scalar, Raw: rapid.SampledFrom([]string{"!!null {}", "!!null []", "!!null ''", "&anc", "*anc", "~", "null", "", "!!null x", "!!null [a]"}).Draw(t, "nullish")}
	case 0, 1, 2:
		return ye.Q(rapid.SampledFrom(hostileScalars).Draw(t, "hs"), rapid.SampledFrom([]ye.Style{ye.Auto, ye.Single, ye.Double}).Draw(t, "hst"))
	case 3:
		n := ye.S(rapid.SampledFrom(hostileScalars).Draw(t, "hs"))
		n.Tag = rapid.SampledFrom(hostileTags).Draw(t, "tag")
		return n
	case 4:
		return &ye.Node{Kind: ye.Scalar, Raw: rapid.SampledFrom([]string{"null", "~", "", "[]", "{}", "*x", "&x v", "&x", "*nosuch", "!!float nan", "!!float .nan", "!!int 0x", "!!bool yes", "!!null x", "!!binary =", "!!str", "!!float", "!!int", "!!map {}", "!!seq []", "!!null {}", "!!null []", "!!null [a]", "!!str {}", "!!bool []", "!!int {}", "!!float [1]", "!!null 'x'", "&anc", "&anc {}", "&anc []", "*anc", "[[]]", "{{}}", "[{}]", "{a: [}", "|", ">", "|\n", "? a", "- -", "<<: *x", "!!merge <<", "? [a, b]\n: c", "!!set {a}", "--- x", "...", "%YAML 1.2", "\t", "\"\\x\"", "\"\\u12\"", "'a", "\"a"}).Draw(t, "raw")}
	case 5:
		l := ye.L()
		for i := 0; i < rapid.IntRange(0, 3).Draw(t, "n"); i++ {
			if depth > 0 {
				l.Vals = append(l.Vals, hostileNode(t, depth-1))
			} else {
				l.Vals = append(l.Vals, ye.S("x"))
			}
		}
		l.Flow = rapid.Bool().Draw(t, "flow")
		return l
	case 6:
		m := ye.M()
		for i := 0; i < rapid.IntRange(0, 3).Draw(t, "n"); i++ {
			k := rapid.SampledFrom([]string{"a", "<<", "", "on", "jobs", "steps", "run", "uses", "with", "needs", "if", "matrix", "include", "exclude", "cron", "inputs", "secrets", "type", "default", "required", "runs", "using", "main", "image", "outputs", "value", "self-hosted-runner", "labels", "config-variables", "paths", "ignore", "1", "true", "null", "~"}).Draw(t, "k")
			if depth > 0 {
				m.Set(k, hostileNode(t, depth-1))
			} else {
				m.Set(k, ye.S("x"))
			}
		}
		m.Flow = rapid.Bool().Draw(t, "flow")
		return m
	case 7: // deep nesting
		d := rapid.SampledFrom([]int{5, 30, 100, 400}).Draw(t, "depth")
		if rapid.Bool().Draw(t, "seqnest") {
			return &ye.Node{Kind: ye.Scalar, Raw: strings.Repeat("[", d) + strings.Repeat("]", d)}
		}
		return &ye.Node{Kind: ye.Scalar, Raw: strings.Repeat("{a: ", d) + "1" + strings.Repeat("}", d)}
	case 8: // deep expression
		d := rapid.SampledFrom([]int{10, 100, 400}).Draw(t, "depth")
		form := rapid.SampledFrom([]string{"paren", "not", "index", "call"}).Draw(t, "ef")
		var e string
		switch form {
		case "paren":
			e = strings.Repeat("(", d) + "github.sha" + strings.Repeat(")", d)
		case "not":
			e = strings.Repeat("!", d) + "true"
		case "index":
			e = "github" + strings.Repeat("[0]", d)
		default:
			e = strings.Repeat("format('{0}', ", d) + "1" + strings.Repeat(")", d)
		}
		return ye.Q("${{ "+e+" }}", ye.Double)
	case 9: // token soup in a placeholder
		toks := []string{"github", ".", "event", "*", "[", "]", "(", ")", "'s'", "''", "1", "0x1f", "1e3", "==", "!=", "<", ">=", "&&", "||", "!", ",", "true", "null", "fromJSON", "format", "contains", "'{0}'", "'{'", "-", "\"", "#", "}}", "${{", " "}
		var b strings.Builder
		for i := 0; i < rapid.IntRange(1, 12).Draw(t, "ntok"); i++ {
			b.WriteString(rapid.SampledFrom(toks).Draw(t, "tok"))
			if rapid.Bool().Draw(t, "sp") {
				b.WriteByte(' ')
			}
		}
		return ye.Q("${{ "+b.String()+" }}", ye.Double)
	case 10:
		return ye.Q(rapid.StringN(0, 20, -1).Draw(t, "rnd"), ye.Double)
	default:
		return ye.S(rapid.SampledFrom([]string{"1", "0", "-1", "1.0", "true", "x"}).Draw(t, "plain"))
	}
}

// hostileMutate applies n mutations to the tree.
func hostileMutate(t *rapid.T, root *ye.Node, n int, focus ...*ye.Node) []string {
	var kinds []string
	// slots below a focus node (the interface section of a callee) are preferred half of the time
	inFocus := map[*ye.Node]bool{}
	for _, f := range focus {
		if f != nil {
			f.Walk(func(nd, p *ye.Node, idx int, isKey bool) { inFocus[nd] = true })
		}
	}
	for i := 0; i < n; i++ {
		type slot struct {
			parent *ye.Node
			idx    int
			isKey  bool
		}
		var slots []slot
		root.Walk(func(nd, p *ye.Node, idx int, isKey bool) {
			if p != nil {
				slots = append(slots, slot{p, idx, isKey})
			}
		})
		if len(slots) == 0 {
			return kinds
		}
		s := slots[rapid.IntRange(0, len(slots)-1).Draw(t, "slot")]
		if len(inFocus) > 0 && rapid.Bool().Draw(t, "focus") {
			var fs []slot
			for _, o := range slots {
				if inFocus[o.parent] {
					fs = append(fs, o)
				}
			}
			if len(fs) > 0 {
				s = fs[rapid.IntRange(0, len(fs)-1).Draw(t, "focusslot")]
			}
		}
		switch rapid.IntRange(0, 9).Draw(t, "mk") {
		case 0: // key mutation
			if s.isKey {
				s.parent.Keys[s.idx] = ye.Q(rapid.SampledFrom([]string{"", "<<", "~", "1", "true", "on", "ON", "Jobs", "runs-on", "${{ x }}", "a b", "*"}).Draw(t, "newkey"), ye.Auto)
				kinds = append(kinds, "key-replaced")
				continue
			}
			fallthrough
		default:
			if s.isKey {
				continue
			}
			nn := hostileNode(t, 2)
			s.parent.Vals[s.idx] = nn
			k := "value-replaced/"
			switch {
			case nn.Tag != "":
				k += "tagged-scalar"
			case nn.Raw != "":
				k += "raw"
			case nn.Kind == ye.Scalar:
				k += "scalar"
			case nn.Kind == ye.Seq:
				k += "sequence"
			default:
				k += "mapping"
			}
			kinds = append(kinds, k)
		case 5: // separator soup as the value of a key whose value actionlint takes apart
			var cs []slot
			for _, o := range slots {
				if !o.isKey && o.parent.Kind == ye.Map && o.idx < len(o.parent.Keys) {
					switch o.parent.Keys[o.idx].Val {
					case "uses", "image", "cron", "shell", "entrypoint", "args", "working-directory", "url", "name", "group", "type", "default", "timeout-minutes", "max-parallel", "runs-on", "needs", "options":
						cs = append(cs, o)
					}
				}
			}
			if len(cs) > 0 {
				o := cs[rapid.IntRange(0, len(cs)-1).Draw(t, "soupslot")]
				var b strings.Builder
				for i := rapid.IntRange(1, 8).Draw(t, "nsoup"); i > 0; i-- {
					b.WriteString(rapid.SampledFrom([]string{"a", "b", "v1", "/", "@", ".", "..", ":", "-", "~", "\\", "*", " ", "./", "docker://", "=", ",", "0", "9", "TZ=", "CRON_TZ=", "UTC", "@every", "*/5", "@"}).Draw(t, "soup"))
				}
				o.parent.Vals[o.idx] = ye.Q(b.String(), rapid.SampledFrom([]ye.Style{ye.Single, ye.Double}).Draw(t, "soupst"))
				kinds = append(kinds, "separator-soup@"+o.parent.Keys[o.idx].Val)
			}
		case 1: // delete entry
			if s.parent.Kind == ye.Map && len(s.parent.Keys) > 0 {
				s.parent.Keys = append(s.parent.Keys[:s.idx:s.idx], s.parent.Keys[s.idx+1:]...)
				s.parent.Vals = append(s.parent.Vals[:s.idx:s.idx], s.parent.Vals[s.idx+1:]...)
			} else if s.parent.Kind == ye.Seq {
				s.parent.Vals = append(s.parent.Vals[:s.idx:s.idx], s.parent.Vals[s.idx+1:]...)
			}
			kinds = append(kinds, "entry-deleted")
		case 2: // duplicate entry
			if s.parent.Kind == ye.Map {
				s.parent.Keys = append(s.parent.Keys, s.parent.Keys[s.idx].Clone())
				s.parent.Vals = append(s.parent.Vals, s.parent.Vals[s.idx].Clone())
			} else {
				s.parent.Vals = append(s.parent.Vals, s.parent.Vals[s.idx].Clone())
			}
			kinds = append(kinds, "entry-duplicated")
		case 4: // flip the letter case of an existing scalar (keywords, names and values the code matches)
			if !s.isKey && s.parent.Vals[s.idx].Kind == ye.Scalar && s.parent.Vals[s.idx].Raw == "" {
				v := s.parent.Vals[s.idx]
				switch rapid.IntRange(0, 2).Draw(t, "flip") {
				case 0:
					v.Val = strings.ToUpper(v.Val)
				case 1:
					v.Val = strings.Title(v.Val)
				default:
					var b strings.Builder
					for i, r := range v.Val {
						if i%2 == 0 {
							b.WriteString(strings.ToUpper(string(r)))
						} else {
							b.WriteRune(r)
						}
					}
					v.Val = b.String()
				}
				kinds = append(kinds, "letter-case-flipped")
			}
		case 3: // anchor + alias pair
			if !s.isKey && rapid.IntRange(0, 2).Draw(t, "emptyanchor") == 0 {
				// an anchored empty node in place of any value; its aliases are null only after resolution
				s.parent.Vals[s.idx] = &ye.Node{Kind: ye.Scalar, Raw: "&anc"}
			}
			if !s.isKey && s.parent.Vals[s.idx].Kind == ye.Scalar && (s.parent.Vals[s.idx].Raw == "" || s.parent.Vals[s.idx].Raw == "&anc") {
				v := s.parent.Vals[s.idx]
				if v.Raw == "" {
					v.Raw = "&anc " + "'" + strings.ReplaceAll(v.Val, "'", "''") + "'"
				}
				s2 := slots[rapid.IntRange(0, len(slots)-1).Draw(t, "slot2")]
				if rapid.Bool().Draw(t, "aliasinsibling") {
					// the alias in a later entry of the same mapping / sequence
					var later []slot
					for _, o := range slots {
						if o.parent == s.parent && !o.isKey && o.idx > s.idx {
							later = append(later, o)
						}
					}
					if len(later) > 0 {
						s2 = later[rapid.IntRange(0, len(later)-1).Draw(t, "sibling")]
					}
				}
				if !s2.isKey && s2.parent != nil && s2.idx < len(s2.parent.Vals) {
					s2.parent.Vals[s2.idx] = &ye.Node{Kind: ye.Scalar, Raw: "*anc"}
				}
				kinds = append(kinds, "anchor-alias")
			}
		}
	}
	return kinds
}

// hostileInterfaceEntry replaces the whole definition of one declared input / secret / output (the
// positions decoded by the metadata readers of callers) by a hostile or null-like node.
func hostileInterfaceEntry(t *rapid.T, sections ...*ye.Node) string {
	var maps []*ye.Node
	for _, s := range sections {
		if s != nil && s.Kind == ye.Map && len(s.Vals) > 0 {
			maps = append(maps, s)
		}
	}
	if len(maps) == 0 {
		return ""
	}
	m := maps[rapid.IntRange(0, len(maps)-1).Draw(t, "ifacesection")]
	i := rapid.IntRange(0, len(m.Vals)-1).Draw(t, "ifaceentry")
	if rapid.Bool().Draw(t, "nullish") {
		m.Vals[i] = &ye.Node{Kind: ye.Scalar, Raw: rapid.SampledFrom([]string{"!!null {}", "!!null []", "!!null ''", "&anc", "*anc", "~", "null", "", "!!null x", "!!str", "!!map {}", "[]", "{}"}).Draw(t, "nullishentry")}
		if m.Vals[i].Raw == "*anc" && i > 0 {
			m.Vals[rapid.IntRange(0, i-1).Draw(t, "anchorat")] = &ye.Node{Kind: ye.Scalar, Raw: "&anc"}
		}
	} else {
		m.Vals[i] = hostileNode(t, 1)
	}
	return "interface-entry-replaced"
}

// rewireNeeds adds 0-3 small jobs and gives random jobs random `needs` lists over all job ids of the
// file (self references, cycles with and without jobs leading into them, unknown ids, repetitions).
func rewireNeeds(t *rapid.T, root *ye.Node) string {
	jobs := root.Get("jobs")
	if jobs == nil || jobs.Kind != ye.Map {
		return ""
	}
	for i := rapid.IntRange(0, 3).Draw(t, "extrajobs"); i > 0; i-- {
		j := ye.M()
		j.Set("runs-on", ye.S("ubuntu-latest"))
		j.Set("steps", ye.L(ye.M().Set("run", ye.S("echo"))))
		id := fmt.Sprintf("zzj%d", i)
		// new jobs go to a random position: document order decides where searches start
		at := rapid.IntRange(0, len(jobs.Keys)).Draw(t, "extraat")
		jobs.Keys = append(jobs.Keys[:at:at], append([]*ye.Node{ye.S(id)}, jobs.Keys[at:]...)...)
		jobs.Vals = append(jobs.Vals[:at:at], append([]*ye.Node{j}, jobs.Vals[at:]...)...)
	}
	var ids []string
	for _, k := range jobs.Keys {
		ids = append(ids, k.Val)
	}
	ids = append(ids, "zz-no-such-job")
	for _, j := range jobs.Vals {
		if j.Kind != ye.Map || rapid.Bool().Draw(t, "keepneeds") {
			continue
		}
		l := ye.L()
		for i := rapid.IntRange(1, 3).Draw(t, "nneeds"); i > 0; i-- {
			l.Vals = append(l.Vals, ye.S(rapid.SampledFrom(ids).Draw(t, "needsid")))
		}
		if j.Get("needs") != nil {
			j.Del("needs")
		}
		if len(l.Vals) == 1 && rapid.Bool().Draw(t, "needsscalar") {
			j.Set("needs", l.Vals[0])
		} else {
			j.Set("needs", l)
		}
	}
	return "needs-rewired"
}

func byteMutate(t *rapid.T, b []byte) []byte {
	n := rapid.IntRange(1, 4).Draw(t, "nbm")
	for i := 0; i < n && len(b) > 0; i++ {
		p := rapid.IntRange(0, len(b)-1).Draw(t, "bp")
		switch rapid.IntRange(0, 3).Draw(t, "bk") {
		case 0:
			b = append(b[:p:p], b[p+1:]...)
		case 1:
			ins := rapid.SampledFrom([]string{"\xff", "\x00", "\t", "\n", "  ", ":", "- ", "&a ", "*a", "!!float ", "'", "\"", "{", "[", "---\n", "\xc3", "\xef\xbb\xbf", "#"}).Draw(t, "ins")
			b = append(b[:p:p], append([]byte(ins), b[p:]...)...)
		case 2:
			b[p] = byte(rapid.IntRange(0, 255).Draw(t, "byte"))
		default:
			q := rapid.IntRange(p, min(len(b), p+40)).Draw(t, "bq")
			b = append(b[:p:p], b[q:]...)
		}
	}
	return b
}

func actionMetaBase(t *rapid.T) *ye.Node {
	m := ye.M()
	m.Set("name", ye.S("my action"))
	m.Set("description", ye.S("desc"))
	ins := ye.M()
	ins.Set("foo", ye.M().Set("description", ye.S("d")).Set("required", ye.S("true")).Set("default", ye.S("x")))
	ins.Set("bar", ye.M().Set("required", ye.S("false")).Set("deprecationMessage", ye.S("dep")))
	m.Set("inputs", ins)
	m.Set("outputs", ye.M().Set("out1", ye.M().Set("description", ye.S("o")).Set("value", ye.S("${{ steps.x.outputs.y }}"))))
	runs := ye.M()
	switch rapid.IntRange(0, 2).Draw(t, "using") {
	case 0:
		runs.Set("using", ye.S("node20")).Set("main", ye.S("index.js")).Set("pre", ye.S("pre.js")).Set("post-if", ye.S("always()"))
	case 1:
		runs.Set("using", ye.S("docker")).Set("image", ye.S("Dockerfile")).Set("args", ye.L(ye.S("a"))).Set("env", ye.M().Set("A", ye.S("b")))
	default:
		runs.Set("using", ye.S("composite")).Set("steps", ye.L(ye.M().Set("run", ye.S("echo")).Set("shell", ye.S("bash")).Set("id", ye.S("x"))))
	}
	m.Set("runs", runs)
	m.Set("branding", ye.M().Set("icon", ye.S("check")).Set("color", ye.S("blue")))
	return m
}

func configBase(t *rapid.T) *ye.Node {
	m := ye.M()
	m.Set("self-hosted-runner", ye.M().Set("labels", ye.L(ye.S("my-label"), ye.S("linux.*"))))
	m.Set("config-variables", ye.L(ye.S("FOO"), ye.S("BAR")))
	paths := ye.M()
	paths.Set(".github/workflows/**/*.yml", ye.M().Set("ignore", ye.L(ye.S("label .+ is unknown"), ye.S("shellcheck"))))
	m.Set("paths", paths)
	return m
}

func TestC01(t *testing.T) {
	hx.Main(t, "C01", func(r *hx.Run) {
		r.Rule = "structure-aware hostile inputs on four channels (workflow bytes via Lint and via LintFiles on two files with and without a repository; action.yml of a local action used by a step; a local reusable workflow called by a job, also as part of the same run; actionlint.yaml via ParseConfig and via Command.Main): a clean generated document (workflow model, action metadata, configuration) or a file of the repository's testdata receives 1-6 mutations (node of another kind, explicit tags with hostile scalars, anchors/aliases/merge keys, nesting up to depth 400, token soup and deep expressions in ${{ }}, hostile numbers and strings, deleted/duplicated entries, random bytes incl. invalid UTF-8). Oracle: the call returns within 20 s (x3), without a Go panic, and Command.Main exits 0/1/3 without 'panic:' on stderr. Non-trivial = the mutated input differs from its base and the linter produced a diagnostic or fatal error; distinct = hash of the bytes. Thorough tier adds native coverage-guided fuzz targets."
		r.Assumptions = []string{"panics are recovered in the harness, never in the target", "inputs <= 64 KiB"}
		seeds := []string{}
		for _, d := range []string{"ok", "err", "examples"} {
			fs, _ := filepath.Glob("/repo/testdata/" + d + "/*.yaml")
			seeds = append(seeds, fs...)
		}
		sort.Strings(seeds)
		r.Extra["repo_seed_files"] = len(seeds)
		run := func(rt *rapid.T, c *c01Case, kinds []string, changed bool) {
			if len(c.bytes()) > 64<<10 {
				r.Discard("input larger than 64 KiB")
				return
			}
			r.LastCase("C01/input", c)
			k, m, diags := c01Run(c)
			r.Eval()
			if changed && (diags > 0 || k != "") {
				r.NT(c.B64, c.Channel)
			}
			r.Class("channel/" + c.Channel)
			for _, kd := range kinds {
				r.Class("mutation/" + kd)
			}
			r.Sample(map[string]any{"channel": c.Channel, "input": c.Text})
			if k != "" {
				r.Fail(rt, k, m, "C01/input", c)
			}
		}
		chWorkflow := []string{"workflow", "workflow", "workflow-two-files", "workflow-two-files-no-repo"}
		r.Check(t, "workflow-tree-mutations", hx.N(2500, 20000), func(rt *rapid.T) {
			g := &wf.G{T: rt, Rare: rapid.Bool().Draw(rt, "rare")}
			w := g.Workflow()
			if rapid.Bool().Draw(rt, "shufflekeys") {
				g.ShuffleKeys(w.Root)
			}
			var kinds []string
			if rapid.IntRange(0, 3).Draw(rt, "rewire") == 0 {
				// well-formed values, hostile structure: the dependency graph
				if k := rewireNeeds(rt, w.Root); k != "" {
					kinds = append(kinds, k)
				}
			}
			kinds = append(kinds, hostileMutate(rt, w.Root, rapid.IntRange(0, 6).Draw(rt, "nmut"))...)
			b := []byte(ye.Emit(w.Root, g.Layout()))
			if rapid.IntRange(0, 4).Draw(rt, "bytes") == 0 {
				b = byteMutate(rt, b)
				kinds = append(kinds, "byte-level")
			}
			run(rt, newC01Case(rapid.SampledFrom(chWorkflow).Draw(rt, "ch"), b), kinds, true)
		})
		if len(seeds) > 0 {
			r.Check(t, "repo-seed-byte-mutations", hx.N(1200, 15000), func(rt *rapid.T) {
				b, err := os.ReadFile(rapid.SampledFrom(seeds).Draw(rt, "seed"))
				if err != nil {
					return
				}
				kinds := []string{"byte-level"}
				if rapid.Bool().Draw(rt, "splice") {
					// splice a hostile scalar after a random "key: " occurrence
					idxs := regexp.MustCompile(`(?m):[ ]`).FindAllIndex(b, -1)
					if len(idxs) > 0 {
						p := idxs[rapid.IntRange(0, len(idxs)-1).Draw(rt, "at")][1]
						eol := bytes.IndexByte(b[p:], '\n')
						if eol < 0 {
							eol = len(b) - p
						}
						hs := rapid.SampledFrom(hostileScalars).Draw(rt, "hs")
						tag := ""
						if rapid.Bool().Draw(rt, "tag") {
							tag = rapid.SampledFrom(hostileTags).Draw(rt, "tagv") + " "
						}
						b = append(append(append([]byte{}, b[:p]...), []byte(tag+hs)...), b[p+eol:]...)
						kinds = []string{"spliced-hostile-scalar"}
					}
				} else {
					b = byteMutate(rt, b)
				}
				run(rt, newC01Case(rapid.SampledFrom(chWorkflow).Draw(rt, "ch"), b), kinds, true)
			})
		}
		r.Check(t, "action-metadata", hx.N(1200, 12000), func(rt *rapid.T) {
			root := actionMetaBase(rt)
			caller := ""
			if rapid.IntRange(0, 3).Draw(rt, "owncaller") > 0 {
				caller = c01ActionCallerFor(root)
			}
			kinds := hostileMutate(rt, root, rapid.IntRange(0, 5).Draw(rt, "nmut"), root.Get("inputs"), root.Get("outputs"))
			if rapid.IntRange(0, 2).Draw(rt, "ifaceentry") == 0 {
				if k := hostileInterfaceEntry(rt, root.Get("inputs"), root.Get("outputs")); k != "" {
					kinds = append(kinds, k)
				}
			}
			b := []byte(ye.Emit(root, ye.Layout{Indent: 2}))
			if rapid.IntRange(0, 4).Draw(rt, "bytes") == 0 {
				b = byteMutate(rt, b)
			}
			cc := newC01Case("action", b)
			cc.Caller = caller
			run(rt, cc, kinds, true)
		})
		r.Check(t, "reusable-workflow", hx.N(1200, 12000), func(rt *rapid.T) {
			g := &wf.G{T: rt, Rare: true}
			var w *wf.WF
			for i := 0; i < 6; i++ {
				w = g.Workflow()
				if w.HasCall {
					break
				}
			}
			// the caller passes every input and secret the callee declared before it was mutated and reads
			// every declared output
			caller := ""
			if rapid.IntRange(0, 3).Draw(rt, "owncaller") > 0 {
				caller = c01CallerFor(w.Root)
			}
			var iface *ye.Node
			if on := w.Root.Get("on"); on != nil && on.Kind == ye.Map {
				iface = on.Get("workflow_call")
			}
			kinds := hostileMutate(rt, w.Root, rapid.IntRange(0, 5).Draw(rt, "nmut"), iface)
			if iface != nil && iface.Kind == ye.Map && rapid.IntRange(0, 2).Draw(rt, "ifaceentry") == 0 {
				if k := hostileInterfaceEntry(rt, iface.Get("inputs"), iface.Get("secrets"), iface.Get("outputs")); k != "" {
					kinds = append(kinds, k)
				}
			}
			b := []byte(ye.Emit(w.Root, g.Layout()))
			if rapid.IntRange(0, 4).Draw(rt, "bytes") == 0 {
				b = byteMutate(rt, b)
			}
			cc := newC01Case("reusable", b)
			cc.Caller = caller
			run(rt, cc, kinds, true)
		})
		// well-formed but structurally rich inputs of other properties' generators (matrix value trees with
		// include / exclude entries derived from each other; needs graphs): deep comparisons and graph
		// searches must not crash either
		r.Check(t, "matrix-value-trees", hx.N(600, 10000), func(rt *rapid.T) {
			n := rapid.IntRange(1, 2).Draw(rt, "nmatrices")
			var cs []*c19Case
			for i := 0; i < n; i++ {
				cs = append(cs, c19gen(rt))
			}
			src, _ := c19BuildJobs(cs, cs[0].Indent)
			run(rt, newC01Case("workflow", []byte(src)), []string{"matrix-value-tree"}, true)
		})
		r.Check(t, "reference-shapes", hx.N(400, 8000), func(rt *rapid.T) {
			c5, _, _ := genC05Shape(rt, nil)
			run(rt, newC01Case("workflow", []byte(c5.YAML)), []string{"reference-shape"}, true)
		})
		// every string up to length 5 (thorough 6) over {a / @ . : -} as the value of a step-level and a
		// job-level `uses:` (the spec parsers slice these strings by the positions of / and @)
		{
			alpha := []string{"a", "/", "@", ".", ":", "-"}
			maxLen := hx.N(5, 6)
			idx, nuses := 0, int64(0)
			var rec func(cur string, depth int)
			rec = func(cur string, depth int) {
				if depth > 0 {
					idx++
					if idx%hx.P.NShards == hx.P.Shard {
						y := "on: push\njobs:\n  a:\n    runs-on: ubuntu-latest\n    steps:\n      - uses: '" + cur + "'\n  b:\n    uses: '" + cur + "'\n"
						c := newC01Case("workflow", []byte(y))
						r.LastCase("C01/input", c)
						k, m, _ := c01Run(c)
						r.Eval()
						r.NTSeq(1)
						nuses++
						if k != "" {
							r.Report(k, m, "C01/input", c)
						}
					}
				}
				if depth == maxLen {
					return
				}
				for _, a := range alpha {
					rec(cur+a, depth+1)
				}
			}
			rec("", 0)
			r.Extra["uses_values_enumerated"] = nuses
			r.Class("exhaustive/uses-values")
		}
		r.Check(t, "config", hx.N(1000, 10000), func(rt *rapid.T) {
			root := configBase(rt)
			kinds := hostileMutate(rt, root, rapid.IntRange(1, 4).Draw(rt, "nmut"))
			b := []byte(ye.Emit(root, ye.Layout{Indent: 2}))
			if rapid.IntRange(0, 3).Draw(rt, "bytes") == 0 {
				b = byteMutate(rt, b)
			}
			run(rt, newC01Case(rapid.SampledFrom([]string{"config", "config-main"}).Draw(rt, "ch"), b), kinds, true)
		})
	})
}

// ---- native fuzz targets (thorough tier; `go test -fuzz`) ---------------------------------------------

func fuzzSeeds(f *testing.F, dirs ...string) {
	for _, d := range dirs {
		fs, _ := filepath.Glob(d)
		for i, p := range fs {
			if i%4 != 0 {
				continue
			}
			if b, err := os.ReadFile(p); err == nil && len(b) < 8<<10 {
				f.Add(b)
			}
		}
	}
	for _, s := range hostileScalars {
		f.Add([]byte("on: push\njobs:\n  a:\n    runs-on: ubuntu-latest\n    timeout-minutes: " + s + "\n    steps:\n      - run: echo\n        if: " + s + "\n"))
	}
	for _, tg := range hostileTags {
		f.Add([]byte("on: push\njobs:\n  a:\n    runs-on: ubuntu-latest\n    timeout-minutes: " + tg + " nan\n    strategy:\n      max-parallel: " + tg + " 0x\n      fail-fast: " + tg + " y\n    steps:\n      - run: echo\n"))
	}
}

func fuzzChannel(f *testing.F, channel string) {
	f.Fuzz(func(t *testing.T, b []byte) {
		if len(b) > 64<<10 {
			return
		}
		c := newC01Case(channel, b)
		if k, m, _ := c01Run(c); k != "" {
			fuzzFail(t, k, m, c)
		}
	})
}

// fuzzFail saves the failing input as a replay case and fails the fuzz target; the driver picks the
// key and replay path out of the output.
func fuzzFail(t *testing.T, k, m string, c *c01Case) {
	r := hx.NewRun("C01")
	r.Report(k, m, "C01/input", c)
	t.Fatalf("VIOLATION-CANDIDATE key=%s replay=%s\n%s", k, r.ReplayOf(k), m)
}

func FuzzWorkflow(f *testing.F) {
	fuzzSeeds(f, "/repo/testdata/ok/*.yaml", "/repo/testdata/err/*.yaml", "/repo/testdata/examples/*.yaml")
	fuzzChannel(f, "workflow")
}

func FuzzWorkflowTwoFilesNoRepo(f *testing.F) {
	fuzzSeeds(f, "/repo/testdata/ok/*.yaml")
	fuzzChannel(f, "workflow-two-files-no-repo")
}

func FuzzActionMeta(f *testing.F) {
	fuzzSeeds(f, "/repo/testdata/projects/*/action/*/action.yml", "/repo/testdata/projects/*/*/action.yml", "/repo/testdata/action_metadata/*/action.y*ml")
	f.Add([]byte("name: x\ninputs:\n  foo:\n    required: true\nruns:\n  using: node20\n  main: index.js\n"))
	fuzzChannel(f, "action")
}

func FuzzReusable(f *testing.F) {
	fuzzSeeds(f, "/repo/testdata/ok/*workflow_call*.yaml", "/repo/testdata/err/*workflow_call*.yaml")
	f.Add([]byte("on:\n  workflow_call:\n    inputs:\n      in1:\n        type: string\n    secrets:\n      s1:\n        required: true\n    outputs:\n      o1:\n        value: x\njobs:\n  a:\n    runs-on: ubuntu-latest\n    steps:\n      - run: echo\n"))
	fuzzChannel(f, "reusable")
}

func FuzzConfig(f *testing.F) {
	f.Add([]byte("self-hosted-runner:\n  labels:\n    - foo\nconfig-variables:\n  - X\npaths:\n  .github/workflows/**/*.yml:\n    ignore:\n      - foo\n"))
	f.Add([]byte("paths:\n  '[': {}\n"))
	f.Add([]byte("config-variables: null\n"))
	fuzzChannel(f, "config")
}

func FuzzExprInWorkflow(f *testing.F) {
	for _, s := range hostileScalars {
		f.Add([]byte(s))
	}
	f.Fuzz(func(t *testing.T, b []byte) {
		if len(b) > 8<<10 || bytes.ContainsAny(b, "\n\r\"\\") {
			return
		}
		s := string(b)
		y := "on: push\njobs:\n  a:\n    runs-on: ubuntu-latest\n    if: \"" + s + "\"\n    strategy:\n      matrix:\n        x: [\"${{ " + s + " }}\"]\n    steps:\n      - run: \"echo ${{ " + s + " }}\"\n        if: \"${{ " + s + " }}\"\n        timeout-minutes: \"${{ " + s + " }}\"\n"
		c := newC01Case("workflow", []byte(y))
		if k, m, _ := c01Run(c); k != "" {
			fuzzFail(t, k, m, c)
		}
	})
}
