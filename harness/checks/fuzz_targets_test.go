package checks

import (
	"strings"
	"sync"
	"testing"
	"unicode/utf8"

	al "github.com/rhysd/actionlint"

	"verifharness/hx"
)

// Native coverage-guided differential fuzz targets (thorough tier). Each target puts the semantic
// oracle of its property inside the fuzz function; open known findings are skipped (fuzzing stops at
// the first crasher, so a known class must not end the campaign).

var fuzzRuns sync.Map

func fuzzRun(prop string) *hx.Run {
	if r, ok := fuzzRuns.Load(prop); ok {
		return r.(*hx.Run)
	}
	r := hx.NewRun(prop)
	fuzzRuns.Store(prop, r)
	return r
}

func fuzzReport(t *testing.T, prop, key, msg, kind string, data any) {
	r := fuzzRun(prop)
	if r.IsKnown(key) {
		return
	}
	r.Report(key, msg, kind, data)
	t.Fatalf("VIOLATION-CANDIDATE key=%s replay=%s\n%s", key, r.ReplayOf(key), msg)
}

// C04: reference grammar vs actionlint on arbitrary text
func FuzzC04Expr(f *testing.F) {
	for _, s := range []string{"a || b && c == !d", "f(a, 'x', 1.5e+3)[0].*.b", "0x1F", "-1e-2", "'it''s'", "a.b-c_d", "(((a)))", "!!a", "a[b[c]]", "1.", "a.1", "f(a,)", "TRUE", "a <= b >= c", "''", "0x", "1e+", "a.*.*"} {
		f.Add(s)
	}
	f.Fuzz(func(t *testing.T, s string) {
		if len(s) > 4096 || strings.Contains(s, "}}") || strings.ContainsRune(s, 0) || !isValidUTF8(s) {
			return // YAML text is valid UTF-8 without NUL; the scanner's handling of those is not part of the grammar
		}
		c := &exprCase{Src: s}
		if k, m, _ := checkExpr(c); k != "" {
			fuzzReport(t, "C04", k, m, "C04/expr", c)
		}
	})
}

// C11: taint model vs actionlint on every text the reference grammar accepts
func FuzzC11Taint(f *testing.F) {
	for _, s := range []string{"github.event.issue.title", "github['event']['pull_request'].head.ref", "github.event.*.body[0]", "contains(github.head_ref, 'x') || github.event.commits[0].message", "format('{0}', github.event.pages.*.page_name)", "matrix.x[github.event.comment.body]", "fromJSON(github.event.review.body).a", "github.event.commits.*.author.name", "GITHUB.EVENT.ISSUE.BODY", "github.*.pages[0].page_name"} {
		f.Add(s)
	}
	f.Fuzz(func(t *testing.T, s string) {
		if len(s) > 2048 || strings.Contains(s, "}}") || strings.ContainsRune(s, 0) || !isValidUTF8(s) {
			return
		}
		c := &c11Case{Src: s}
		if hasOtherSemanticErrors(s) {
			return // an expression with other semantic errors (undefined function, ...) is not analysed further
		}
		k, m, _ := checkTaintSema(c)
		if k == "" || strings.HasPrefix(k, "harness/") {
			return
		}
		if k == "C11/panic" && strings.Contains(m, "actionlint rejects") {
			return // grammar disagreements belong to C04
		}
		fuzzReport(t, "C11", k, m, "C11/sema", c)
	})
}

// C17: reference validator vs actionlint on arbitrary patterns
func FuzzC17Glob(f *testing.F) {
	for _, s := range []string{"main", "releases/**", "v[12].[0-9]+.[0-9]+", "!docs/**", "a\\*b", "[a-", "a?+", "**.js", "feature/*-beta", "\\!x", "[!a]", "a b", "refs/heads/~x", "é ", "[z-a]"} {
		f.Add(s)
	}
	f.Fuzz(func(t *testing.T, s string) {
		if len(s) > 512 {
			return
		}
		if !isValidUTF8(s) || strings.ContainsRune(s, 0) {
			return // columns are character columns; invalid UTF-8 / NUL cannot occur in YAML text
		}
		if k, m := checkGlob(s); k != "" {
			fuzzReport(t, "C17", k, m, "C17/glob", &globCase{s})
		}
	})
}

// C16: snippet renderer on arbitrary bytes and positions
func FuzzC16Render(f *testing.F) {
	f.Add([]byte("on: push\n  key: value\n"), 2, 3)
	f.Add([]byte("name: 日本語 ${{ x }}\r\nb"), 1, 17)
	f.Add([]byte(""), 0, 0)
	f.Add([]byte("\ta\n"), 1, 2)
	f.Fuzz(func(t *testing.T, src []byte, line, col int) {
		if len(src) > 8192 || line > 1<<20 || col > 1<<20 || line < -1<<20 || col < -1<<20 {
			return
		}
		c := &c16Render{Line: line, Col: col, Msg: "m", Kind: "k", File: "f.yml", SrcB64: src}
		if k, m, _ := checkRenderer(c); k != "" {
			fuzzReport(t, "C16", k, m, "C16/render", c)
		}
	})
}

func isValidUTF8(s string) bool { return utf8.ValidString(s) }

// hasOtherSemanticErrors: the expression has semantic diagnostics other than untrusted-input reports.
func hasOtherSemanticErrors(src string) bool {
	e, perr := al.NewExprParser().Parse(al.NewExprLexer(src + "}}"))
	if perr != nil {
		return true
	}
	ch := al.NewExprSemanticsChecker(false, nil)
	ch.SetContextAvailability([]string{"github", "env", "matrix", "steps", "needs", "inputs", "secrets", "vars", "job", "runner", "strategy"})
	ch.SetSpecialFunctionAvailability([]string{"hashfiles", "always", "success", "failure", "cancelled"})
	ch.UpdateMatrix(al.NewEmptyObjectType())
	_, errs := ch.Check(e)
	return len(errs) > 0
}
