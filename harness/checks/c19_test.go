package checks

import (
	"encoding/json"
	"fmt"
	"sort"
	"strings"
	"testing"

	"pgregory.net/rapid"
	"verifharness/hx"
	ye "verifharness/yamlemit"
)

// ---- C19: matrix duplicate and exclude checks are exact and order-insensitive --------------------

// mval is a matrix value tree (JSON-serialisable for replay).
type mval struct {
	S    *string  `json:"s,omitempty"` // scalar text
	Keys []string `json:"k,omitempty"` // mapping keys (with M)
	M    []*mval  `json:"m,omitempty"`
	L    []*mval  `json:"l,omitempty"` // sequence
	Seq  bool     `json:"seq,omitempty"`
	Flow bool     `json:"flow,omitempty"`
}

func ms(s string) *mval    { return &mval{S: &s} }
func ml(xs ...*mval) *mval { return &mval{L: xs, Seq: true} }
func mm(kv ...any) *mval {
	m := &mval{}
	for i := 0; i+1 < len(kv); i += 2 {
		m.Keys = append(m.Keys, kv[i].(string))
		m.M = append(m.M, kv[i+1].(*mval))
	}
	return m
}

func (v *mval) isExpr() bool { return v.S != nil && strings.Contains(*v.S, "${{") }
func (v *mval) kind() string {
	switch {
	case v.S != nil:
		return "scalar"
	case v.Seq:
		return "seq"
	}
	return "map"
}

func mEqual(a, b *mval) bool {
	if a.kind() != b.kind() {
		return false
	}
	switch a.kind() {
	case "scalar":
		return *a.S == *b.S
	case "seq":
		if len(a.L) != len(b.L) {
			return false
		}
		for i := range a.L {
			if !mEqual(a.L[i], b.L[i]) {
				return false
			}
		}
		return true
	}
	if len(a.Keys) != len(b.Keys) {
		return false
	}
	for i, k := range a.Keys {
		found := false
		for j, k2 := range b.Keys {
			if k == k2 {
				found = true
				if !mEqual(a.M[i], b.M[j]) {
					return false
				}
			}
		}
		if !found {
			return false
		}
	}
	return true
}

// mContains: candidate c contains the exclude value sub (mappings by subset, sequences element-wise,
// scalars by equality; anything built from an expression matches).
func mContains(c, sub *mval) bool {
	if sub.isExpr() || c.isExpr() {
		return true
	}
	if c.kind() != sub.kind() {
		return false
	}
	switch c.kind() {
	case "scalar":
		return *c.S == *sub.S
	case "seq":
		if len(c.L) != len(sub.L) {
			return false
		}
		for i := range c.L {
			if !mContains(c.L[i], sub.L[i]) {
				return false
			}
		}
		return true
	}
	for i, k := range sub.Keys {
		found := false
		for j, k2 := range c.Keys {
			if k == k2 {
				found = true
				if !mContains(c.M[j], sub.M[i]) {
					return false
				}
			}
		}
		if !found {
			return false
		}
	}
	return true
}

func (v *mval) hasExprAnywhere() bool {
	if v.isExpr() {
		return true
	}
	for _, x := range v.M {
		if x.hasExprAnywhere() {
			return true
		}
	}
	for _, x := range v.L {
		if x.hasExprAnywhere() {
			return true
		}
	}
	return false
}

func (v *mval) node() *ye.Node {
	switch v.kind() {
	case "scalar":
		n := ye.S(*v.S)
		if v.isExpr() {
			n.Style = ye.Single
		}
		return n
	case "seq":
		n := ye.L()
		for _, x := range v.L {
			n.Vals = append(n.Vals, x.node())
		}
		n.Flow = v.Flow
		return n
	}
	n := ye.M()
	for i, k := range v.Keys {
		n.Set(k, v.M[i].node())
	}
	n.Flow = v.Flow
	return n
}

type mrow struct {
	Key    string  `json:"key"`
	Values []*mval `json:"values,omitempty"`
	Expr   string  `json:"expr,omitempty"` // row given by one expression
}

type mentry struct {
	Keys []string `json:"keys,omitempty"`
	Vals []*mval  `json:"vals,omitempty"`
	Expr string   `json:"expr,omitempty"` // whole entry given by one expression
}

type c19Case struct {
	Rows        []mrow   `json:"rows"`
	Include     []mentry `json:"include,omitempty"`
	IncludeExpr string   `json:"include_expr,omitempty"`
	Exclude     []mentry `json:"exclude,omitempty"`
	ExcludeExpr string   `json:"exclude_expr,omitempty"`
	Indent      int      `json:"indent"`
	ExprForm    int      `json:"expr_form,omitempty"` // how whole-value expressions are written: 0 plain, 1 block scalar keeping its final line break, 2 double quoted with a trailing \n, 3 spaces around the placeholder
	KeyCase     int      `json:"key_case,omitempty"` // > 0: row / include / exclude keys are written in varying letter case (keys are case-insensitive)
}

type c19Expect struct {
	dupAt      map[string]bool // "line:col"
	exclKeyAt  map[string]bool
	exclValAt  map[string]bool
	nontrivial bool
	classes    []string
}

// build renders the workflow and computes the expected reports from the reference model.
func (c *c19Case) build() (string, *c19Expect) {
	return c19BuildJobs([]*c19Case{c}, c.Indent)
}

// c19BuildJobs renders one workflow with one job per case (jobs are independent of each other, so
// the expected reports are the union of the per-job expectations).
func c19BuildJobs(cs []*c19Case, indent int) (string, *c19Expect) {
	exp := &c19Expect{dupAt: map[string]bool{}, exclKeyAt: map[string]bool{}, exclValAt: map[string]bool{}}
	root := ye.M()
	root.Set("on", ye.S("push"))
	jobs := ye.M()
	var fills []func(*c19Expect)
	for i, c := range cs {
		job, fill := c.job()
		jobs.Set(string(rune('a'+i)), job)
		fills = append(fills, fill)
	}
	root.Set("jobs", jobs)
	src := ye.Emit(root, ye.Layout{Indent: indent})
	for _, f := range fills {
		f(exp)
	}
	return src, exp
}

// job builds the job node of one matrix and returns the function computing the expected reports
// from the reference model once positions are known.
func (c *c19Case) job() (*ye.Node, func(exp *c19Expect)) {
	job := ye.M()
	nkey := 0
	spellKey := func(k string) string {
		if c.KeyCase == 0 || k == "include" || k == "exclude" {
			return k
		}
		nkey++
		switch (c.KeyCase + nkey) % 4 {
		case 0:
			return strings.ToUpper(k)
		case 1:
			return strings.ToUpper(k[:1]) + k[1:]
		}
		return k
	}
	strat := ye.M()
	matrix := ye.M()
	exprNode := func(e string) *ye.Node {
		switch c.ExprForm {
		case 1:
			return ye.Q(e+"\n", ye.Literal)
		case 2:
			return ye.Q(e+"\n", ye.Double)
		case 3:
			return ye.Q("  "+e+" ", ye.Single)
		}
		return ye.S(e)
	}
	type rowNodes struct {
		row   mrow
		nodes []*ye.Node
	}
	var rns []rowNodes
	for _, r := range c.Rows {
		if r.Expr != "" {
			matrix.Set(spellKey(r.Key), exprNode(r.Expr))
			rns = append(rns, rowNodes{row: r})
			continue
		}
		l := ye.L()
		var nodes []*ye.Node
		for _, v := range r.Values {
			n := v.node()
			nodes = append(nodes, n)
			l.Vals = append(l.Vals, n)
		}
		matrix.Set(spellKey(r.Key), l)
		rns = append(rns, rowNodes{r, nodes})
	}
	entryNodes := func(es []mentry) (*ye.Node, [][]*ye.Node, [][]*ye.Node) {
		l := ye.L()
		var keyNodes, valNodes [][]*ye.Node
		for _, e := range es {
			if e.Expr != "" {
				l.Vals = append(l.Vals, exprNode(e.Expr))
				keyNodes = append(keyNodes, nil)
				valNodes = append(valNodes, nil)
				continue
			}
			m := ye.M()
			var vs []*ye.Node
			for i, k := range e.Keys {
				vn := e.Vals[i].node()
				vs = append(vs, vn)
				m.Set(spellKey(k), vn)
			}
			l.Vals = append(l.Vals, m)
			keyNodes = append(keyNodes, m.Keys)
			valNodes = append(valNodes, vs)
		}
		return l, keyNodes, valNodes
	}
	var exKeys, exVals [][]*ye.Node
	if c.IncludeExpr != "" {
		matrix.Set("include", exprNode(c.IncludeExpr))
	} else if len(c.Include) > 0 {
		l, _, _ := entryNodes(c.Include)
		matrix.Set("include", l)
	}
	if c.ExcludeExpr != "" {
		matrix.Set("exclude", exprNode(c.ExcludeExpr))
	} else if len(c.Exclude) > 0 {
		var l *ye.Node
		l, exKeys, exVals = entryNodes(c.Exclude)
		matrix.Set("exclude", l)
	}
	strat.Set("matrix", matrix)
	job.Set("strategy", strat)
	job.Set("runs-on", ye.S("ubuntu-latest"))
	job.Set("steps", ye.L(ye.M().Set("run", ye.S("echo"))))
	return job, func(exp *c19Expect) {
		at := func(n *ye.Node) string { return fmt.Sprintf("%d:%d", n.Line, n.Col) }
		// duplicates
		for _, rn := range rns {
			for i := range rn.nodes {
				for j := 0; j < i; j++ {
					a, b := rn.row.Values[j], rn.row.Values[i]
					if mEqual(a, b) {
						exp.dupAt[at(rn.nodes[i])] = true
						exp.nontrivial = true
						exp.classes = append(exp.classes, "duplicate/"+b.kind())
						break
					}
					if a.kind() == b.kind() && a.kind() != "scalar" && (mContains(a, b) || mContains(b, a)) {
						exp.nontrivial = true
						exp.classes = append(exp.classes, "subset-related-not-equal/"+b.kind())
					}
				}
			}
		}
		// exclude
		includeHasExpr := c.IncludeExpr != ""
		for _, e := range c.Include {
			if e.Expr != "" {
				includeHasExpr = true
			}
		}
		if len(exKeys) > 0 && !includeHasExpr {
			cands := map[string][]*mval{}
			ignored := map[string]bool{}
			for _, r := range c.Rows {
				if r.Expr != "" {
					ignored[r.Key] = true
					continue
				}
				cands[r.Key] = append(cands[r.Key], r.Values...)
			}
			for _, e := range c.Include {
				for i, k := range e.Keys {
					if !ignored[k] {
						cands[k] = append(cands[k], e.Vals[i])
					}
				}
			}
			for ei, e := range c.Exclude {
				if e.Expr != "" {
					continue
				}
				exp.nontrivial = true
				for i, k := range e.Keys {
					if ignored[k] {
						exp.classes = append(exp.classes, "exclude/key-of-expression-row")
						continue
					}
					cs, ok := cands[k]
					if !ok {
						exp.exclKeyAt[at(exKeys[ei][i])] = true
						exp.classes = append(exp.classes, "exclude/unknown-key")
						continue
					}
					matched := false
					for _, cv := range cs {
						if mContains(cv, e.Vals[i]) {
							matched = true
							if !mEqual(cv, e.Vals[i]) && !cv.hasExprAnywhere() && !e.Vals[i].hasExprAnywhere() {
								exp.classes = append(exp.classes, "exclude/proper-subset-match")
							}
							break
						}
					}
					if !matched {
						exp.exclValAt[at(exVals[ei][i])] = true
						exp.classes = append(exp.classes, "exclude/no-candidate-contains/"+e.Vals[i].kind())
					} else {
						exp.classes = append(exp.classes, "exclude/matched/"+e.Vals[i].kind())
					}
				}
			}
		} else if includeHasExpr && len(c.Exclude) > 0 {
			exp.classes = append(exp.classes, "exclude/skipped-include-has-expression")
		}
	}
}

type c19Got struct {
	dupAt, exclKeyAt, exclValAt map[string]bool
	other                       []string
}

func c19Lint(src string) (*c19Got, string, string) {
	ds, err, pan, st := lintSafe([]byte(src))
	if pan != nil {
		return nil, "C19/panic", fmt.Sprintf("panic %v at %s\n%s", pan, st, src)
	}
	if err != nil {
		return nil, "C19/linter-fatal", fmt.Sprintf("%v\n%s", err, src)
	}
	g := &c19Got{map[string]bool{}, map[string]bool{}, map[string]bool{}, nil}
	for _, d := range ds {
		p := fmt.Sprintf("%d:%d", d.Line, d.Col)
		switch {
		case d.Kind == "matrix" && strings.HasPrefix(d.Msg, "duplicate value"):
			g.dupAt[p] = true
		case d.Kind == "matrix" && strings.Contains(d.Msg, "in \"exclude\" section does not exist in matrix"):
			g.exclKeyAt[p] = true
		case d.Kind == "matrix" && strings.Contains(d.Msg, "in \"exclude\" does not match in matrix"):
			g.exclValAt[p] = true
		default:
			g.other = append(g.other, d.String())
		}
	}
	return g, "", ""
}

func setDiff(a, b map[string]bool) []string {
	var out []string
	for k := range a {
		if !b[k] {
			out = append(out, k)
		}
	}
	sort.Strings(out)
	return out
}

// checkJobs: several matrices as jobs of one workflow; every job is checked on its own.
func checkJobs(cs []*c19Case) (key, msg string, exp *c19Expect) {
	src, exp := c19BuildJobs(cs, cs[0].Indent)
	k, m := c19Compare(src, exp)
	if k != "" && !strings.HasPrefix(k, "harness/") {
		// does each matrix alone behave? then the defect is an interaction between jobs
		alone := true
		for _, c := range cs {
			if k1, _, _ := checkMatrix(c); k1 != "" {
				alone = false
			}
		}
		if alone {
			k += "(only-next-to-other-jobs)"
		}
	}
	return k, m, exp
}

func checkMatrix(c *c19Case) (key, msg string, exp *c19Expect) {
	src, exp := c.build()
	k, m := c19Compare(src, exp)
	return k, m, exp
}

func c19Compare(src string, exp *c19Expect) (key, msg string) {
	got, k, m := c19Lint(src)
	if k != "" {
		return k, m
	}
	if len(got.other) > 0 {
		return "harness/c19-unexpected-diagnostic", fmt.Sprintf("%v\n%s", got.other, src)
	}
	cmp := func(name string, want, have map[string]bool) (string, string) {
		if miss := setDiff(want, have); len(miss) > 0 {
			return "C19/" + name + "-missed", fmt.Sprintf("%s expected at %v but not reported (reported: %v)\n%s", name, miss, keysOf(have), src)
		}
		if extra := setDiff(have, want); len(extra) > 0 {
			return "C19/" + name + "-spurious", fmt.Sprintf("%s reported at %v but the reference model does not expect it (expected: %v)\n%s", name, extra, keysOf(want), src)
		}
		return "", ""
	}
	if k, m := cmp("duplicate", exp.dupAt, got.dupAt); k != "" {
		if strings.HasSuffix(k, "spurious") {
			k = "C19/duplicate-spurious(subset-mapping)"
		}
		return k, m
	}
	if k, m := cmp("exclude-unknown-key", exp.exclKeyAt, got.exclKeyAt); k != "" {
		return k, m
	}
	if k, m := cmp("exclude-value", exp.exclValAt, got.exclValAt); k != "" {
		return k, m
	}
	return "", ""
}

func keysOf(m map[string]bool) []string {
	var ks []string
	for k := range m {
		ks = append(ks, k)
	}
	sort.Strings(ks)
	return ks
}

func init() {
	hx.RegisterReplayer("C19/matrix", func(r *hx.Run, data json.RawMessage) {
		var c c19Case
		if err := json.Unmarshal(data, &c); err != nil {
			panic(err)
		}
		if k, m, _ := checkMatrix(&c); k != "" {
			r.Report(k, m, "C19/matrix", &c)
		}
	})
	hx.RegisterReplayer("C19/jobs", func(r *hx.Run, data json.RawMessage) {
		var cs []*c19Case
		if err := json.Unmarshal(data, &cs); err != nil {
			panic(err)
		}
		if k, m, _ := checkJobs(cs); k != "" {
			r.Report(k, m, "C19/jobs", cs)
		}
	})
	hx.RegisterReplayer("C19/permutation", func(r *hx.Run, data json.RawMessage) {
		var cs []c19Case
		if err := json.Unmarshal(data, &cs); err != nil {
			panic(err)
		}
		if k, m := checkPermutation(&cs[0], &cs[1]); k != "" {
			r.Report(k, m, "C19/permutation", cs)
		}
	})
}

func checkPermutation(a, b *c19Case) (string, string) {
	sa, _ := a.build()
	sb, _ := b.build()
	ga, k, m := c19Lint(sa)
	if k != "" {
		return k, m
	}
	gb, k, m := c19Lint(sb)
	if k != "" {
		return k, m
	}
	if len(ga.dupAt) != len(gb.dupAt) || len(ga.exclKeyAt) != len(gb.exclKeyAt) || len(ga.exclValAt) != len(gb.exclValAt) {
		return "C19/verdict-depends-on-order", fmt.Sprintf("duplicate/unknown-key/no-match counts %d/%d/%d vs %d/%d/%d after a permutation\n--- A\n%s\n--- B\n%s", len(ga.dupAt), len(ga.exclKeyAt), len(ga.exclValAt), len(gb.dupAt), len(gb.exclKeyAt), len(gb.exclValAt), sa, sb)
	}
	return "", ""
}

// ---- generator -----------------------------------------------------------------------------------

func c19pool(t *rapid.T, depth int) *mval {
	k := rapid.IntRange(0, 11).Draw(t, "vk")
	if depth <= 0 && k > 4 {
		k = k % 4
	}
	var v *mval
	switch k {
	case 0, 1:
		v = ms(rapid.SampledFrom([]string{"a", "b", "1", "x y"}).Draw(t, "s"))
	case 2:
		v = ms(rapid.SampledFrom([]string{"a", "b"}).Draw(t, "s2"))
	case 3:
		v = ms("1")
	case 4:
		v = ms(rapid.SampledFrom([]string{"${{ github.sha }}", "v-${{ github.ref }}"}).Draw(t, "sx"))
	case 5, 6, 7:
		n := rapid.IntRange(1, 3).Draw(t, "nm")
		v = &mval{}
		names := []string{"k", "m", "n"}
		for i := 0; i < n; i++ {
			if rapid.IntRange(0, 3).Draw(t, "has") > 0 || i == 0 {
				v.Keys = append(v.Keys, names[i])
				v.M = append(v.M, c19pool(t, depth-1))
			}
		}
	default:
		n := rapid.IntRange(1, 3).Draw(t, "nl")
		v = &mval{Seq: true}
		for i := 0; i < n; i++ {
			v.L = append(v.L, c19pool(t, depth-1))
		}
	}
	if v.S == nil {
		v.Flow = rapid.Bool().Draw(t, "flow")
	}
	return v
}

func cloneM(v *mval) *mval {
	c := *v
	c.Keys = append([]string(nil), v.Keys...)
	c.M, c.L = nil, nil
	for _, x := range v.M {
		c.M = append(c.M, cloneM(x))
	}
	for _, x := range v.L {
		c.L = append(c.L, cloneM(x))
	}
	if v.S != nil {
		s := *v.S
		c.S = &s
	}
	return &c
}

// derive produces a value related to v: equal, a sub-mapping, a super-mapping, changed member, permuted members.
func c19derive(t *rapid.T, v *mval) *mval {
	d := cloneM(v)
	if d.kind() == "scalar" || d.hasExprAnywhere() && rapid.Bool().Draw(t, "keepx") {
		return d
	}
	switch rapid.IntRange(0, 5).Draw(t, "how") {
	case 0: // equal
	case 1: // drop a member / element
		if d.kind() == "map" && len(d.Keys) > 1 {
			i := rapid.IntRange(0, len(d.Keys)-1).Draw(t, "di")
			d.Keys = append(d.Keys[:i:i], d.Keys[i+1:]...)
			d.M = append(d.M[:i:i], d.M[i+1:]...)
		} else if d.kind() == "seq" && len(d.L) > 1 {
			d.L = d.L[:len(d.L)-1]
		}
	case 2: // add a member / element
		if d.kind() == "map" {
			name := "z"
			for used := true; used; {
				used = false
				for _, k := range d.Keys {
					if k == name {
						used = true
						name += "z"
					}
				}
			}
			d.Keys = append(d.Keys, name)
			d.M = append(d.M, ms("q"))
		} else {
			d.L = append(d.L, ms("q"))
		}
	case 3: // change a member
		if d.kind() == "map" {
			d.M[0] = ms("changed")
		} else {
			d.L[0] = ms("changed")
		}
	case 4: // permute members (mappings: same value; sequences: different value)
		if d.kind() == "map" && len(d.Keys) > 1 {
			d.Keys[0], d.Keys[1] = d.Keys[1], d.Keys[0]
			d.M[0], d.M[1] = d.M[1], d.M[0]
		} else if d.kind() == "seq" && len(d.L) > 1 {
			d.L[0], d.L[1] = d.L[1], d.L[0]
		}
	default: // recurse into first child
		if d.kind() == "map" {
			d.M[0] = c19derive(t, d.M[0])
		} else {
			d.L[0] = c19derive(t, d.L[0])
		}
	}
	d.Flow = rapid.Bool().Draw(t, "dflow")
	return d
}

func c19gen(t *rapid.T) *c19Case {
	c := &c19Case{Indent: rapid.IntRange(1, 4).Draw(t, "indent")}
	if rapid.IntRange(0, 2).Draw(t, "keycase") == 0 {
		c.KeyCase = rapid.IntRange(1, 4).Draw(t, "keycasesalt")
	}
	if rapid.IntRange(0, 2).Draw(t, "exprformq") == 0 {
		c.ExprForm = rapid.IntRange(1, 3).Draw(t, "exprform")
	}
	nrows := rapid.IntRange(1, 3).Draw(t, "nrows")
	for i := 0; i < nrows; i++ {
		r := mrow{Key: []string{"os", "ver", "cfg"}[i]}
		if rapid.IntRange(0, 7).Draw(t, "rowexpr") == 0 && i > 0 {
			r.Expr = "${{ fromJSON(github.event.client_payload.r) }}"
			c.Rows = append(c.Rows, r)
			continue
		}
		nv := rapid.IntRange(1, 4).Draw(t, "nv")
		for k := 0; k < nv; k++ {
			if k > 0 && rapid.IntRange(0, 2).Draw(t, "rel") > 0 {
				v := c19derive(t, r.Values[rapid.IntRange(0, k-1).Draw(t, "from")])
				if v.isExpr() {
					v = ms("plain")
				}
				r.Values = append(r.Values, v)
			} else {
				v := c19pool(t, 2)
				// identical expression scalars in one row are textual duplicates: not generated
				if v.isExpr() {
					dup := false
					for _, o := range r.Values {
						if mEqual(o, v) {
							dup = true
						}
					}
					if dup {
						v = ms("plain2")
					}
				}
				r.Values = append(r.Values, v)
			}
		}
		c.Rows = append(c.Rows, r)
	}
	// make sure equal values built from expressions do not appear twice in a row (derive may copy them)
	for ri := range c.Rows {
		vs := c.Rows[ri].Values
		for i := range vs {
			for j := 0; j < i; j++ {
				if vs[i].hasExprAnywhere() && mEqual(vs[i], vs[j]) {
					vs[i] = ms(fmt.Sprintf("uniq%d", i))
				}
			}
		}
	}
	pickRowVal := func() (string, *mval) {
		var lit []mrow
		for _, r := range c.Rows {
			if r.Expr == "" {
				lit = append(lit, r)
			}
		}
		r := lit[rapid.IntRange(0, len(lit)-1).Draw(t, "pr")]
		return r.Key, r.Values[rapid.IntRange(0, len(r.Values)-1).Draw(t, "pv")]
	}
	entry := func(allowNewKey bool) mentry {
		e := mentry{}
		n := rapid.IntRange(1, 2).Draw(t, "nk")
		used := map[string]bool{}
		for i := 0; i < n; i++ {
			k, v := pickRowVal()
			if rapid.IntRange(0, 4).Draw(t, "anyrow") == 0 {
				k = c.Rows[rapid.IntRange(0, len(c.Rows)-1).Draw(t, "ar")].Key
			}
			if allowNewKey && rapid.IntRange(0, 3).Draw(t, "newkey") == 0 {
				k = rapid.SampledFrom([]string{"extra", "more"}).Draw(t, "nkn")
			}
			if used[k] {
				continue
			}
			used[k] = true
			e.Keys = append(e.Keys, k)
			e.Vals = append(e.Vals, c19derive(t, v))
		}
		return e
	}
	switch rapid.IntRange(0, 5).Draw(t, "inc") {
	case 0, 1:
		for i := 0; i < rapid.IntRange(1, 2).Draw(t, "ninc"); i++ {
			c.Include = append(c.Include, entry(true))
		}
		if rapid.IntRange(0, 5).Draw(t, "incelemexpr") == 0 {
			c.Include = append(c.Include, mentry{Expr: "${{ fromJSON(github.event.client_payload.e) }}"})
		}
	case 2:
		if rapid.IntRange(0, 2).Draw(t, "incx") == 0 {
			c.IncludeExpr = "${{ fromJSON(github.event.client_payload.i) }}"
		}
	}
	switch rapid.IntRange(0, 4).Draw(t, "exc") {
	case 0, 1, 2:
		for i := 0; i < rapid.IntRange(1, 3).Draw(t, "nexc"); i++ {
			e := entry(false)
			if rapid.IntRange(0, 5).Draw(t, "unk") == 0 {
				e.Keys = append(e.Keys, "nokey")
				e.Vals = append(e.Vals, ms("v"))
			}
			c.Exclude = append(c.Exclude, e)
		}
		if rapid.IntRange(0, 6).Draw(t, "excelemexpr") == 0 {
			c.Exclude = append(c.Exclude, mentry{Expr: "${{ fromJSON(github.event.client_payload.x) }}"})
		}
	case 3:
		if rapid.IntRange(0, 2).Draw(t, "excx") == 0 {
			c.ExcludeExpr = "${{ fromJSON(github.event.client_payload.x) }}"
		}
	}
	return c
}

// permute returns a copy with rows, row values, mapping members and entries reordered.
func c19permute(t *rapid.T, c *c19Case) *c19Case {
	b, _ := json.Marshal(c)
	var p c19Case
	json.Unmarshal(b, &p)
	perm := func(n int, swap func(i, j int)) {
		for i := n - 1; i > 0; i-- {
			j := rapid.IntRange(0, i).Draw(t, "pj")
			swap(i, j)
		}
	}
	perm(len(p.Rows), func(i, j int) { p.Rows[i], p.Rows[j] = p.Rows[j], p.Rows[i] })
	for ri := range p.Rows {
		vs := p.Rows[ri].Values
		perm(len(vs), func(i, j int) { vs[i], vs[j] = vs[j], vs[i] })
	}
	perm(len(p.Include), func(i, j int) { p.Include[i], p.Include[j] = p.Include[j], p.Include[i] })
	perm(len(p.Exclude), func(i, j int) { p.Exclude[i], p.Exclude[j] = p.Exclude[j], p.Exclude[i] })
	var members func(v *mval)
	members = func(v *mval) {
		if v.kind() == "map" {
			perm(len(v.Keys), func(i, j int) { v.Keys[i], v.Keys[j] = v.Keys[j], v.Keys[i]; v.M[i], v.M[j] = v.M[j], v.M[i] })
		}
		for _, x := range v.M {
			members(x)
		}
		for _, x := range v.L {
			members(x)
		}
	}
	for ri := range p.Rows {
		for _, v := range p.Rows[ri].Values {
			members(v)
		}
	}
	for _, es := range [][]mentry{p.Include, p.Exclude} {
		for ei := range es {
			e := &es[ei]
			perm(len(e.Keys), func(i, j int) {
				e.Keys[i], e.Keys[j] = e.Keys[j], e.Keys[i]
				e.Vals[i], e.Vals[j] = e.Vals[j], e.Vals[i]
			})
			for _, v := range e.Vals {
				members(v)
			}
		}
	}
	return &p
}

func TestC19(t *testing.T) {
	hx.Main(t, "C19", func(r *hx.Run) {
		r.Rule = "matrices as value trees (scalars, sequences, mappings nested to depth 3, drawn from a small pool and derived from each other by keeping/dropping/adding/changing/permuting members so that equal and subset-related values are frequent), include/exclude entries derived from row values, some rows/entries/sections given by expressions; in a third of the matrices the row / include / exclude keys are written in varying letter case; each matrix is also re-rendered under a random permutation of rows, values, members and entries. Oracle: reference model (deep equality for duplicates; subset/element-wise/equality containment for exclude against row values + include assignments), exact report positions from the emitter; counts invariant under permutation; 2-3 generated matrices are also rendered as jobs of ONE workflow and every job must get exactly the reports it gets alone. Non-trivial = matrix with a pair of equal or subset-related structured values or a literal exclude entry; distinct = YAML text."
		r.Assumptions = []string{"scalars are plain and distinct spellings are distinct values", "identical expression scalars repeated in one row are not generated (textual duplicates)", "exclude checking is skipped entirely when include contains an expression (documented give-up)"}
		r.Check(t, "matrices", hx.N(6000, 120000), func(rt *rapid.T) {
			c := c19gen(rt)
			k, m, exp := checkMatrix(c)
			r.Eval()
			src, _ := c.build()
			if exp != nil && exp.nontrivial {
				r.NT(src)
			}
			if exp != nil {
				for _, cl := range exp.classes {
					r.Class(cl)
				}
			}
			r.Sample(src)
			if k != "" {
				r.Fail(rt, k, m, "C19/matrix", c)
			}
			p := c19permute(rt, c)
			if k, m := checkPermutation(c, p); k != "" {
				r.Fail(rt, k, m, "C19/permutation", []*c19Case{c, p})
			}
			if k, m, _ := checkMatrix(p); k != "" {
				r.Fail(rt, k, m, "C19/matrix", p)
			}
		})
		// several jobs in one workflow, each with its own matrix over the same row names: the reports
		// of a job do not depend on the jobs before or after it
		r.Check(t, "several-jobs", hx.N(3000, 60000), func(rt *rapid.T) {
			n := rapid.IntRange(2, 3).Draw(rt, "njobs")
			var cs []*c19Case
			for i := 0; i < n; i++ {
				cs = append(cs, c19gen(rt))
			}
			k, m, exp := checkJobs(cs)
			r.Eval()
			src, _ := c19BuildJobs(cs, cs[0].Indent)
			exprRowBefore := false
			for i, c := range cs {
				for _, row := range c.Rows {
					if row.Expr != "" && i < n-1 {
						exprRowBefore = true
					}
				}
			}
			if exp.nontrivial && exprRowBefore {
				r.NT(src)
				r.Class("several-jobs/expression-row-in-an-earlier-job")
			}
			r.Class(fmt.Sprintf("several-jobs/%d", n))
			r.Sample(src)
			if k != "" {
				r.Fail(rt, k, m, "C19/jobs", cs)
			}
		})
	})
}
