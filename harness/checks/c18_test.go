package checks

import (
	"encoding/json"
	"fmt"
	"regexp"
	"sort"
	"strings"
	"testing"

	"pgregory.net/rapid"
	"verifharness/hx"
)

// ---- C18: job dependency checks are exact for every needs graph -------------------------------

// needsCase is a workflow reduced to its needs graph. Needs entries are written as given (any letter
// case, possibly naming a job that does not exist, possibly repeated).
type needsCase struct {
	Jobs   []string   `json:"jobs"`             // job ids as written (unique modulo case)
	Needs  [][]string `json:"needs"`            // per job: needs entries as written
	Scalar []bool     `json:"scalar"`           // per job: write a single entry in scalar form
	Broken []int      `json:"broken,omitempty"` // per job: 0 well-formed; 1 empty body (null); 2 scalar body; 3 sequence body. The id is defined all the same.
}

func (c *needsCase) broken(i int) int {
	if i < len(c.Broken) {
		return c.Broken[i]
	}
	return 0
}

var (
	reCycle    = regexp.MustCompile(`^cyclic dependencies in "needs" job configurations are detected\. detected cycle is (.+)$`)
	reDangling = regexp.MustCompile(`^job "([^"]+)" needs job "([^"]+)" which does not exist in this workflow$`)
	reDupNeeds = regexp.MustCompile(`^job ID "([^"]+)" duplicates in "needs" section`)
)

func (c *needsCase) yaml() (string, []int) {
	var b strings.Builder
	b.WriteString("on: push\njobs:\n")
	line := 3
	starts := make([]int, len(c.Jobs))
	for i, id := range c.Jobs {
		starts[i] = line
		if k := c.broken(i); k != 0 {
			fmt.Fprintf(&b, "  %s:%s\n", id, []string{"", "", " 42", " []"}[k])
			line++
			continue
		}
		fmt.Fprintf(&b, "  %s:\n    runs-on: ubuntu-latest\n", id)
		line += 2
		ns := c.Needs[i]
		if len(ns) == 1 && c.Scalar[i] {
			fmt.Fprintf(&b, "    needs: %s\n", ns[0])
			line++
		} else if len(ns) > 0 {
			fmt.Fprintf(&b, "    needs: [%s]\n", strings.Join(ns, ", "))
			line++
		}
		b.WriteString("    steps:\n      - run: echo\n")
		line += 2
	}
	return b.String(), starts
}

// checkNeeds is the oracle. It returns "" or (key, message).
func checkNeeds(c *needsCase, repeats int) (string, string) {
	src, starts := c.yaml()
	n := len(c.Jobs)
	idx := map[string]int{}
	for i, id := range c.Jobs {
		idx[strings.ToLower(id)] = i
	}
	// reference model
	adj := make([][]int, n)
	wantDangling := map[string]bool{} // "job\x00dep"
	for i := range c.Jobs {
		seen := map[string]bool{}
		if c.broken(i) != 0 {
			continue // no body, no needs
		}
		for _, e := range c.Needs[i] {
			le := strings.ToLower(e)
			if seen[le] {
				continue
			}
			seen[le] = true
			if j, ok := idx[le]; ok {
				adj[i] = append(adj[i], j)
			} else {
				wantDangling[strings.ToLower(c.Jobs[i])+"\x00"+le] = true
			}
		}
	}
	cyclic := refHasCycle(n, adj)
	jobOfLine := func(line int) int {
		j := -1
		for i, s := range starts {
			if line >= s {
				j = i
			}
		}
		return j
	}
	for rep := 0; rep < repeats; rep++ {
		ds, err, pan, st := lintSafe([]byte(src))
		if pan != nil {
			return "C18/panic", fmt.Sprintf("panic %v at %s\n%s", pan, st, src)
		}
		if err != nil {
			return "C18/fatal", fmt.Sprintf("fatal error %v\n%s", err, src)
		}
		gotDangling := map[string]int{}
		ncyc := 0
		for _, d := range ds {
			if d.Kind != "job-needs" {
				if j := jobOfLine(d.Line); j >= 0 && c.broken(j) != 0 && d.Kind == "syntax-check" {
					continue // the broken body itself is reported
				}
				return "C18/unexpected-diagnostic", fmt.Sprintf("unexpected diagnostic %s\n%s", d, src)
			}
			if m := reDangling.FindStringSubmatch(d.Msg); m != nil {
				k := strings.ToLower(m[1]) + "\x00" + strings.ToLower(m[2])
				gotDangling[k]++
				if j, ok := idx[strings.ToLower(m[1])]; !ok || jobOfLine(d.Line) != j {
					return "C18/dangling-position", fmt.Sprintf("dangling report %s is not located at the referring job\n%s", d, src)
				}
				continue
			}
			if reDupNeeds.MatchString(d.Msg) {
				continue // repeated entry inside one needs list: outside the statement, tolerated
			}
			m := reCycle.FindStringSubmatch(d.Msg)
			if m == nil {
				return "C18/unexpected-diagnostic", fmt.Sprintf("unexpected job-needs diagnostic %s\n%s", d, src)
			}
			ncyc++
			parts := strings.Split(m[1], " -> ")
			if len(parts) < 2 || parts[0] != parts[len(parts)-1] {
				return "C18/printed-cycle-not-closed", fmt.Sprintf("printed path is not closed: %s\n%s", m[1], src)
			}
			seen := map[string]bool{}
			for k := 0; k+1 < len(parts); k++ {
				if seen[parts[k]] {
					return "C18/printed-cycle-repeats", fmt.Sprintf("printed path repeats a job: %s\n%s", m[1], src)
				}
				seen[parts[k]] = true
				u, ok1 := idx[strings.ToLower(strings.Trim(parts[k], `"`))]
				v, ok2 := idx[strings.ToLower(strings.Trim(parts[k+1], `"`))]
				if !ok1 || !ok2 {
					return "C18/printed-cycle-unknown-job", fmt.Sprintf("printed path names unknown job: %s\n%s", m[1], src)
				}
				found := false
				for _, w := range adj[u] {
					if w == v {
						found = true
					}
				}
				if !found {
					return "C18/printed-cycle-not-an-edge", fmt.Sprintf("%s -> %s is not an edge; printed %s\n%s", parts[k], parts[k+1], m[1], src)
				}
			}
		}
		for k := range wantDangling {
			if gotDangling[k] != 1 {
				return "C18/dangling-missed", fmt.Sprintf("dangling reference %q reported %d times (want 1)\n%s\ngot %v", strings.ReplaceAll(k, "\x00", "->"), gotDangling[k], src, diagStrings(ds))
			}
		}
		for k := range gotDangling {
			if !wantDangling[k] {
				return "C18/dangling-spurious", fmt.Sprintf("reference %q reported as dangling but the job exists\n%s", strings.ReplaceAll(k, "\x00", "->"), src)
			}
		}
		if len(wantDangling) == 0 {
			if cyclic && ncyc != 1 {
				return "C18/cycle-missed-or-multiple", fmt.Sprintf("graph is cyclic but %d cycle diagnostics\n%s\ngot %v", ncyc, src, diagStrings(ds))
			}
			if !cyclic && ncyc != 0 {
				return "C18/cycle-spurious", fmt.Sprintf("graph is acyclic but %d cycle diagnostics\n%s\ngot %v", ncyc, src, diagStrings(ds))
			}
		}
	}
	return "", ""
}

// refHasCycle: iterative colouring, self loops included.
func refHasCycle(n int, adj [][]int) bool {
	// Kahn's algorithm: cyclic iff not all nodes can be removed.
	indeg := make([]int, n)
	for u := 0; u < n; u++ {
		for _, v := range adj[u] {
			indeg[v]++
		}
	}
	var q []int
	for v := 0; v < n; v++ {
		if indeg[v] == 0 {
			q = append(q, v)
		}
	}
	removed := 0
	for len(q) > 0 {
		u := q[len(q)-1]
		q = q[:len(q)-1]
		removed++
		for _, v := range adj[u] {
			indeg[v]--
			if indeg[v] == 0 {
				q = append(q, v)
			}
		}
	}
	return removed != n
}

func init() {
	hx.RegisterReplayer("C18/needs", func(r *hx.Run, data json.RawMessage) {
		var c needsCase
		if err := json.Unmarshal(data, &c); err != nil {
			panic(err)
		}
		if k, m := checkNeeds(&c, 8); k != "" {
			r.Report(k, m, "C18/needs", &c)
		}
	})
}

// ids built from the atoms a, b, c, and ids that look like YAML keywords (valid job ids all the same)
var c18composed = []string{"a", "b", "c", "a-b", "b-a", "a-c", "c-a", "b-c", "c-b", "a-a", "b-b", "a-b-c", "a-b-a", "b-a-b", "c-a-b", "b-c-a", "a-a-b", "a-b-b", "b-b-a", "b-a-a", "a_b", "b_a", "a-b_c", "a_b-c", "ab", "ba", "a-", "b-", "a--b", "_a", "null", "true", "false", "on", "yes", "nil", "n", "y"}

var c18names = []string{"a", "b", "c", "d", "e"}

// spell varies the letter case of a needs entry deterministically.
func spell(name string, salt int) string {
	if salt%3 == 1 {
		return strings.ToUpper(name)
	}
	return name
}

// sequences over an alphabet of k symbols up to length maxLen; withRep allows repeated symbols.
func seqs(k, maxLen int, withRep bool) [][]int {
	var out [][]int
	var rec func(cur []int)
	rec = func(cur []int) {
		out = append(out, append([]int(nil), cur...))
		if len(cur) == maxLen {
			return
		}
		for s := 0; s < k; s++ {
			if !withRep {
				dup := false
				for _, c := range cur {
					if c == s {
						dup = true
					}
				}
				if dup {
					continue
				}
			}
			rec(append(cur, s))
		}
	}
	rec(nil)
	return out
}

func TestC18(t *testing.T) {
	hx.Main(t, "C18", func(r *hx.Run) {
		r.Rule = "needs graphs: (1) n<=3 jobs: every tuple of needs lists, each an ordered sequence over {job ids, one dangling name} (with repetition up to length 3 for n<=2; without repetition, all orders, for n=3), scalar/list form and letter case varied; (2) n=4 (thorough: n=5 loop-free + sampled): every edge set, two entry orders, 2 lints each; (3) random graphs with 6-30 jobs. Non-trivial = graph has a cycle or a dangling reference; distinct by construction for (1),(2), by hash of the YAML text for (3)."
		r.Assumptions = []string{"reference: Kahn topological removal for cyclicity; case-folded name resolution", "a repeated entry inside one needs list yields actionlint's own 'duplicates' diagnostic, which is tolerated and not asserted"}
		violations := 0
		report := func(c *needsCase) bool {
			k, m := checkNeeds(c, 1)
			if k != "" {
				if r.Report(k, m, "C18/needs", c) {
					violations++
				}
			}
			return violations > 5
		}
		idx := int64(0)
		mine := func() bool { idx++; return int(idx%int64(hx.P.NShards)) == hx.P.Shard }
		// (1) small n, ordered sequences
		type cfg struct {
			n, maxLen int
			rep       bool
		}
		cfgs := []cfg{{1, 3, true}, {2, 3, true}, {3, 4, false}}
		if hx.Thorough() {
			cfgs = append(cfgs, cfg{3, 3, true})
		}
	outer:
		for _, cf := range cfgs {
			ss := seqs(cf.n+1, cf.maxLen, cf.rep)
			total := 1
			for i := 0; i < cf.n; i++ {
				total *= len(ss)
			}
			for code := 0; code < total; code++ {
				if !mine() {
					continue
				}
				c := &needsCase{Jobs: c18names[:cf.n], Needs: make([][]string, cf.n), Scalar: make([]bool, cf.n)}
				x := code
				nontriv := false
				for i := 0; i < cf.n; i++ {
					s := ss[x%len(ss)]
					x /= len(ss)
					for p, sym := range s {
						name := "zz"
						if sym < cf.n {
							name = c18names[sym]
						} else {
							nontriv = true
						}
						c.Needs[i] = append(c.Needs[i], spell(name, code+i+p))
					}
					c.Scalar[i] = (code+i)%2 == 0
				}
				r.Eval()
				if !nontriv {
					adj := make([][]int, cf.n)
					for i := range c.Needs {
						for _, e := range c.Needs[i] {
							adj[i] = append(adj[i], int(strings.ToLower(e)[0]-'a'))
						}
					}
					nontriv = refHasCycle(cf.n, adj)
				}
				if nontriv {
					r.NTSeq(1)
					r.Class(fmt.Sprintf("n=%d/ordered-lists/nontrivial", cf.n))
				} else {
					r.Class(fmt.Sprintf("n=%d/ordered-lists/acyclic", cf.n))
				}
				if code%9973 == 0 {
					y, _ := c.yaml()
					r.Sample(y)
				}
				if report(c) {
					break outer
				}
			}
		}
		// (2) edge sets
		edgeSets := func(n int, loopFree bool, sampleEvery int) {
			bits := n * n
			for mask := 0; mask < 1<<bits; mask++ {
				if loopFree {
					skip := false
					for i := 0; i < n; i++ {
						if mask&(1<<(i*n+i)) != 0 {
							skip = true
						}
					}
					if skip {
						continue
					}
				} else if sampleEvery > 1 && int(hx.Hash(fmt.Sprint(mask, hx.P.Seed))%uint64(sampleEvery)) != 0 {
					continue
				}
				if !mine() {
					continue
				}
				for order := 0; order < 2; order++ {
					c := &needsCase{Jobs: c18names[:n], Needs: make([][]string, n), Scalar: make([]bool, n)}
					adj := make([][]int, n)
					for i := 0; i < n; i++ {
						for jj := 0; jj < n; jj++ {
							j := jj
							if order == 1 {
								j = n - 1 - jj
							}
							if mask&(1<<(i*n+j)) != 0 {
								adj[i] = append(adj[i], j)
								c.Needs[i] = append(c.Needs[i], spell(c18names[j], i+j+order))
							}
						}
						c.Scalar[i] = (mask+i)%2 == 0
					}
					r.Eval()
					if refHasCycle(n, adj) {
						r.NTSeq(1)
						r.Class(fmt.Sprintf("n=%d/edge-sets/cyclic", n))
					} else {
						r.Class(fmt.Sprintf("n=%d/edge-sets/acyclic", n))
					}
					if k, m := checkNeeds(c, 2); k != "" {
						if r.Report(k, m, "C18/needs", c) {
							violations++
						}
					}
					if violations > 5 {
						return
					}
				}
			}
		}
		if violations <= 5 {
			edgeSets(4, false, 1)
		}
		if hx.Thorough() && violations <= 5 {
			edgeSets(5, true, 1)
			edgeSets(5, false, 32)
		}
		r.Exhaustive = true
		r.Extra["exhaustive_scope"] = "n<=3 ordered needs lists as described; n=4 all 65536 edge sets x 2 orders" + map[bool]string{true: "; n=5 all 2^20 loop-free edge sets x 2 orders, 1/32 sample of the 2^25 edge sets with self loops", false: ""}[hx.Thorough()]
		// (3) random larger graphs
		r.Check(t, "random-large", hx.N(800, 8000), func(rt *rapid.T) {
			n := rapid.IntRange(6, 30).Draw(rt, "n")
			style := rapid.SampledFrom([]string{"sparse", "dense", "chain", "dag+back", "dangling"}).Draw(rt, "style")
			// job ids: j0..jN, or ids composed of the same few atoms with - and _ (ids that are prefixes,
			// suffixes and concatenations of each other)
			composed := rapid.Bool().Draw(rt, "composed-ids")
			var ids, spare []string
			if composed {
				// two families: ids composed of a, b, c (the first 30 entries), or all of them incl. the
				// keyword-like ones
				src := c18composed[:30]
				if rapid.IntRange(0, 2).Draw(rt, "withkeywords") == 0 {
					src = c18composed
				}
				pool := rapid.Permutation(src).Draw(rt, "idpool")
				n = rapid.IntRange(3, 14).Draw(rt, "ncomposed")
				ids, spare = pool[:n], pool[n:]
			} else {
				for i := 0; i < n; i++ {
					ids = append(ids, fmt.Sprintf("j%d", i))
				}
			}
			c := &needsCase{Needs: make([][]string, n), Scalar: make([]bool, n)}
			for i := 0; i < n; i++ {
				id := ids[i]
				if rapid.Bool().Draw(rt, "upper") {
					id = strings.ToUpper(id)
				}
				c.Jobs = append(c.Jobs, id)
			}
			addEdge := func(i, j int) {
				name := ids[j]
				if rapid.Bool().Draw(rt, "eu") {
					name = strings.ToUpper(name)
				}
				for _, e := range c.Needs[i] {
					if strings.EqualFold(e, name) {
						return
					}
				}
				c.Needs[i] = append(c.Needs[i], name)
			}
			switch style {
			case "sparse", "dense":
				p := 1
				if style == "dense" {
					p = 4
				}
				for i := 0; i < n; i++ {
					k := rapid.IntRange(0, p*2).Draw(rt, "deg")
					for e := 0; e < k; e++ {
						addEdge(i, rapid.IntRange(0, n-1).Draw(rt, "to"))
					}
				}
			case "chain":
				for i := 1; i < n; i++ {
					addEdge(i, i-1)
				}
				if rapid.Bool().Draw(rt, "close") {
					addEdge(rapid.IntRange(0, n-2).Draw(rt, "from"), n-1)
				}
			case "dag+back":
				for i := 1; i < n; i++ {
					k := rapid.IntRange(0, 3).Draw(rt, "deg")
					for e := 0; e < k; e++ {
						addEdge(i, rapid.IntRange(0, i-1).Draw(rt, "to"))
					}
				}
				nb := rapid.IntRange(0, 2).Draw(rt, "nback")
				for e := 0; e < nb; e++ {
					i := rapid.IntRange(0, n-1).Draw(rt, "bi")
					addEdge(i, rapid.IntRange(i, n-1).Draw(rt, "bj"))
				}
			case "dangling":
				for i := 1; i < n; i++ {
					if rapid.Bool().Draw(rt, "e") {
						addEdge(i, rapid.IntRange(0, i-1).Draw(rt, "to"))
					}
				}
				nd := rapid.IntRange(1, 3).Draw(rt, "nd")
				for e := 0; e < nd; e++ {
					i := rapid.IntRange(0, n-1).Draw(rt, "di")
					ghost := fmt.Sprintf("ghost%d", e)
					if composed {
						ghost = spare[e]
					}
					c.Needs[i] = append(c.Needs[i], ghost)
				}
			}
			for i := range c.Scalar {
				c.Scalar[i] = rapid.Bool().Draw(rt, "scalar")
			}
			// now and then a job whose body is not a mapping: its id is defined all the same
			if rapid.IntRange(0, 4).Draw(rt, "brokenbodies") == 0 {
				c.Broken = make([]int, n)
				for k := rapid.IntRange(1, 2).Draw(rt, "nbroken"); k > 0; k-- {
					c.Broken[rapid.IntRange(0, n-1).Draw(rt, "brokenjob")] = rapid.IntRange(1, 3).Draw(rt, "brokenkind")
				}
			}
			r.Eval()
			y, _ := c.yaml()
			k, m := checkNeeds(c, 3)
			// non-trivial?
			idx := map[string]int{}
			for i, id := range c.Jobs {
				idx[strings.ToLower(id)] = i
			}
			adj := make([][]int, n)
			dang := false
			for i := range c.Needs {
				for _, e := range c.Needs[i] {
					if j, ok := idx[strings.ToLower(e)]; ok {
						adj[i] = append(adj[i], j)
					} else {
						dang = true
					}
				}
			}
			if dang || refHasCycle(n, adj) {
				r.NT(y)
				r.Class("random/" + style + "/nontrivial")
			} else {
				r.Class("random/" + style + "/acyclic")
			}
			r.Sample(map[string]any{"style": style, "jobs": n, "needs": c.Needs})
			if k != "" {
				r.Fail(rt, k, m, "C18/needs", c)
			}
		})
		ks := make([]string, 0)
		for k := range r.Classes {
			ks = append(ks, k)
		}
		sort.Strings(ks)
	})
}
