package checks

import (
	"encoding/json"
	"fmt"
	"regexp"
	"sort"
	"strings"
	"testing"
	"unicode/utf8"

	al "github.com/rhysd/actionlint"
	"pgregory.net/rapid"
	"verifharness/hx"
)

// ---- C17: filter patterns are validated exactly by the documented glob syntax ---------------------

type globCase struct {
	Pat string `json:"pat"`
}

// refGlob is the reference validator, written from GitHub's filter pattern cheat sheet and the
// character rules of git-check-ref-format. It is three-valued: 1 accept, 0 reject, -1 the
// documentation does not decide this string (no verdict is compared then).
func refGlob(pat string, isRef bool) int {
	rs := []rune(pat)
	if len(rs) == 0 {
		return 0
	}
	if !isRef && (rs[0] == ' ' || rs[len(rs)-1] == ' ') {
		return 0 // path values must not start or end with spaces (trimmed by YAML users by mistake)
	}
	unspecified := false
	i := 0
	prec := false
	if rs[0] == '!' {
		if len(rs) == 1 {
			return 0
		}
		i = 1
		if isRef && rs[1] == '/' {
			unspecified = true // "must not start with /" after a negation mark: not decided by the docs
		}
	} else if isRef && rs[0] == '/' {
		return 0
	}
	if isRef {
		// multi-character ref rules (.., //, @{, component starting with ., .lock) are not
		// *character* rules; the statement does not decide them
		s := string(rs[i:])
		if strings.Contains(s, "..") || strings.Contains(s, "//") || strings.Contains(s, "@{") || strings.HasPrefix(s, ".") || strings.Contains(s, "/.") || strings.HasSuffix(s, ".lock") {
			unspecified = true
		}
	}
	lastOrdinary := rune(-1) // last raw character when it was an ordinary one
	for i < len(rs) {
		c := rs[i]
		lastOrdinary = -1
		switch c {
		case '\\':
			if i+1 < len(rs) && strings.ContainsRune("[?*+\\!", rs[i+1]) {
				e := rs[i+1]
				if isRef {
					if e == '[' || e == '?' || e == '*' {
						return 0 // a literal [ ? * is not allowed in a ref name
					}
					if e == '\\' {
						unspecified = true // literal backslash in a ref: forbidden by git, documented as escapable
					}
				}
				i += 2
				prec = true
				continue
			}
			if isRef {
				return 0 // backslash is not a ref character and escapes nothing here
			}
			prec = true
			i++
			continue
		case '?', '+':
			if !prec {
				return 0
			}
			prec = false
			i++
			continue
		case '*':
			prec = false
			i++
			continue
		case '[':
			j := i + 1
			if j < len(rs) && rs[j] == ']' {
				return 0 // empty set
			}
			chars := 0
			closed := false
			for j < len(rs) {
				d := rs[j]
				if d == ']' {
					closed = true
					j++
					break
				}
				if d == '\\' || d == '\n' || d == '\r' {
					unspecified = true // escapes / line breaks inside a set: not decided by the docs
				}
				if isRef && strings.ContainsRune(" \t~^:", d) {
					unspecified = true // ref-forbidden character inside a set
				}
				if j+1 < len(rs) && rs[j+1] == '-' {
					// range d-e
					if j+2 >= len(rs) {
						return 0 // missing ]
					}
					e := rs[j+2]
					if e == ']' {
						return 0 // end of range missing
					}
					if d > e {
						return 0 // badly ordered range
					}
					if e == '\\' || e == '\n' || e == '\r' {
						unspecified = true
					}
					chars += 2
					j += 3
					continue
				}
				chars++
				j++
			}
			if !closed {
				return 0
			}
			if chars < 2 {
				return 0 // pinned by glob_test.go: a set with a single character is reported
			}
			i = j
			prec = true
			continue
		case '\n', '\r':
			return 0
		case ' ', '\t', '~', '^', ':':
			if isRef {
				return 0
			}
		}
		lastOrdinary = c
		prec = true
		i++
	}
	if isRef && (lastOrdinary == '/' || lastOrdinary == '.') {
		return 0
	}
	if unspecified {
		return -1
	}
	return 1
}

var reNamedChar = regexp.MustCompile(`unexpected character ('(?:\\.|[^'\\])+')|character '(.)' is invalid|character ('\\.+') is invalid`)

func globNamedRune(msg string) (rune, bool) {
	m := reNamedChar.FindStringSubmatch(msg)
	if m == nil {
		return 0, false
	}
	if m[2] != "" {
		r, _ := utf8.DecodeRuneInString(m[2])
		return r, true
	}
	q := m[1] + m[3]
	// %q form of a rune
	var r rune
	if _, err := fmt.Sscanf(q, "%q", &r); err == nil {
		return r, true
	}
	return 0, false
}

func checkGlob(pat string) (key, msg string) {
	var ref, path []al.InvalidGlobPattern
	var pan any
	func() {
		defer func() { pan = recover() }()
		ref = al.ValidateRefGlob(pat)
		path = al.ValidatePathGlob(pat)
	}()
	if pan != nil {
		return "C17/panic", fmt.Sprintf("panic %v on %q", pan, pat)
	}
	if len(ref) == 0 && len(path) != 0 {
		return "C17/ref-accepted-but-path-rejected", fmt.Sprintf("%q accepted as ref filter but rejected as path filter: %s", pat, path[0].Message)
	}
	for _, v := range []struct {
		isRef bool
		errs  []al.InvalidGlobPattern
		name  string
	}{{true, ref, "ref"}, {false, path, "path"}} {
		want := refGlob(pat, v.isRef)
		got := len(v.errs) == 0
		if want == 1 && !got {
			return "C17/" + v.name + "-valid-pattern-reported", fmt.Sprintf("%q is a valid %s filter but reported: %s", pat, v.name, v.errs[0].Message)
		}
		if want == 0 && got {
			return "C17/" + v.name + "-invalid-pattern-accepted", fmt.Sprintf("%q violates the %s filter syntax but is accepted", pat, v.name)
		}
		nrunes := utf8.RuneCountInString(pat)
		multiline := strings.ContainsAny(pat, "\n\r")
		for _, e := range v.errs {
			if e.Message == "" {
				return "C17/empty-message", fmt.Sprintf("%q", pat)
			}
			if e.Column < 0 || e.Column > nrunes && nrunes > 0 || (nrunes == 0 && e.Column != 0) {
				key := "C17/" + v.name + "-column-outside-pattern"
				if strings.Contains(e.Message, "must not end with spaces") {
					key = "C17/path-trailing-space-column-counts-bytes"
				}
				return key, fmt.Sprintf("%q: column %d outside the pattern (%d characters): %s", pat, e.Column, nrunes, e.Message)
			}
			if multiline || strings.Contains(e.Message, "unexpected EOF") {
				continue
			}
			if named, ok := globNamedRune(e.Message); ok {
				col := e.Column
				if col == 0 {
					col = 1
				}
				at := []rune(pat)[col-1]
				if at != named {
					key := "C17/" + v.name + "-message-names-other-character-than-column"
					if v.isRef && col >= 2 && []rune(pat)[col-2] == '\\' && strings.ContainsRune("[?*", at) {
						key = "C17/ref-escaped-special-names-following-character"
					}
					return key, fmt.Sprintf("%q: column %d holds %q but the message names %q: %s", pat, e.Column, at, named, e.Message)
				}
			}
		}
	}
	return "", ""
}

// through the linter: column = scalar content start + in-pattern column - 1
func checkGlobThroughLinter(pat string, isRef bool, quote string) (key, msg string) {
	var errs []al.InvalidGlobPattern
	sec := "paths"
	if isRef {
		errs = al.ValidateRefGlob(pat)
		sec = "branches"
	} else {
		errs = al.ValidatePathGlob(pat)
	}
	val := pat
	off := 0
	switch quote {
	case "'":
		val = "'" + strings.ReplaceAll(pat, "'", "''") + "'"
		off = 1
	case "\"":
		val = "\"" + pat + "\""
		off = 1
	}
	y := "on:\n  push:\n    " + sec + ":\n      - " + val + "\njobs:\n  a:\n    runs-on: ubuntu-latest\n    steps:\n      - run: echo\n"
	ds, err, pan, st := lintSafe([]byte(y))
	if pan != nil {
		return "C17/panic", fmt.Sprintf("panic %v at %s\n%s", pan, st, y)
	}
	if err != nil {
		return "C17/linter-fatal", fmt.Sprintf("%v\n%s", err, y)
	}
	var got []Diag
	for _, d := range ds {
		if d.Kind == "glob" {
			got = append(got, d)
		}
	}
	if len(got) != len(errs) {
		return "C17/linter-glob-diagnostic-count", fmt.Sprintf("validator reports %d problems, linter %d\n%s\n%v", len(errs), len(got), y, diagStrings(ds))
	}
	for i, e := range errs {
		wantCol := 9 + off + e.Column - 1
		if e.Column == 0 {
			wantCol = 9 + off
		}
		if got[i].Line != 4 || got[i].Col != wantCol || !strings.HasPrefix(got[i].Msg, e.Message) {
			return "C17/linter-glob-diagnostic-position", fmt.Sprintf("want 4:%d %q, got %s\n%s", wantCol, e.Message, got[i], y)
		}
	}
	return "", ""
}

type c17Filter struct {
	Kind string   `json:"kind"`
	Pats []string `json:"pats"`
}
type c17Event struct {
	Name    string      `json:"name"`
	Filters []c17Filter `json:"filters"`
}
type c17Multi struct {
	Events []c17Event `json:"events"`
}

// checkSeveralFilters renders the events and compares the glob diagnostics with the validators'
// verdicts per occurrence. both = some string occurs as ref filter and as path filter.
func checkSeveralFilters(c *c17Multi) (key, msg string, both bool) {
	var b strings.Builder
	b.WriteString("on:\n")
	line := 1
	var want []string
	asRef, asPath := map[string]bool{}, map[string]bool{}
	for _, ev := range c.Events {
		fmt.Fprintf(&b, "  %s:\n", ev.Name)
		line++
		switch ev.Name {
		case "schedule":
			b.WriteString("    - cron: '0 0 * * *'\n")
			line++
		case "issues":
			b.WriteString("    types: [opened]\n")
			line++
		case "repository_dispatch":
			b.WriteString("    types: [deploy]\n")
			line++
		}
		if ev.Name == "workflow_run" {
			b.WriteString("    workflows: [ci]\n")
			line++
		}
		for _, f := range ev.Filters {
			fmt.Fprintf(&b, "    %s:\n", f.Kind)
			line++
			for _, p := range f.Pats {
				fmt.Fprintf(&b, "      - '%s'\n", strings.ReplaceAll(p, "'", "''"))
				line++
				var errs []al.InvalidGlobPattern
				if strings.HasPrefix(f.Kind, "paths") {
					errs = al.ValidatePathGlob(p)
					asPath[p] = true
				} else {
					errs = al.ValidateRefGlob(p)
					asRef[p] = true
				}
				for _, e := range errs {
					col := 10 + e.Column - 1
					if e.Column == 0 {
						col = 10
					}
					want = append(want, fmt.Sprintf("%d:%d:%s", line, col, e.Message))
				}
			}
		}
	}
	for p := range asRef {
		if asPath[p] {
			both = true
		}
	}
	b.WriteString("jobs:\n  a:\n    runs-on: ubuntu-latest\n    steps:\n      - run: echo\n")
	y := b.String()
	ds, err, pan, st := lintSafe([]byte(y))
	if pan != nil {
		return "C17/panic", fmt.Sprintf("panic %v at %s\n%s", pan, st, y), both
	}
	if err != nil {
		return "C17/linter-fatal", fmt.Sprintf("%v\n%s", err, y), both
	}
	var got []string
	for _, d := range ds {
		if d.Kind == "glob" {
			m := d.Msg
			if i := strings.Index(m, ". note: "); i >= 0 {
				m = m[:i]
			}
			got = append(got, fmt.Sprintf("%d:%d:%s", d.Line, d.Col, m))
		}
	}
	for i := range want {
		if j := strings.Index(want[i], ". note: "); j >= 0 {
			want[i] = want[i][:j]
		}
	}
	sort.Strings(want)
	sort.Strings(got)
	if strings.Join(want, "\n") != strings.Join(got, "\n") {
		missing, extra := diffStrings(want, got)
		return "C17/linter-glob-diagnostics-differ-from-validators(several-filters)", fmt.Sprintf("expected but not reported: %v\nreported but not expected: %v\n%s", missing, extra, y), both
	}
	return "", "", both
}

func init() {
	hx.RegisterReplayer("C17/several", func(r *hx.Run, data json.RawMessage) {
		var c c17Multi
		if err := json.Unmarshal(data, &c); err != nil {
			panic(err)
		}
		if k, m, _ := checkSeveralFilters(&c); k != "" {
			r.Report(k, m, "C17/several", &c)
		}
	})
	hx.RegisterReplayer("C17/glob", func(r *hx.Run, data json.RawMessage) {
		var c globCase
		if err := json.Unmarshal(data, &c); err != nil {
			panic(err)
		}
		if k, m := checkGlob(c.Pat); k != "" {
			r.Report(k, m, "C17/glob", &c)
		}
	})
}

var c17Alpha = []rune{'a', 'b', '/', '.', '*', '?', '+', '[', ']', '-', '!', '\\', ' ', '~', '^', ':', '\n', '\t', 'é'}

func globClass(pat string) string {
	switch {
	case strings.HasSuffix(pat, "\\"):
		return "escape-before-end"
	case strings.Contains(pat, "-]"):
		return "range-at-end-of-set"
	case pat == "!" || strings.HasPrefix(pat, "!") && len(pat) <= 2:
		return "short-negation"
	case strings.Contains(pat, "**") || strings.Contains(pat, "*?") || strings.Contains(pat, "?+") || strings.Contains(pat, "+?") || strings.Contains(pat, "*+"):
		return "special-after-special"
	case strings.Contains(pat, "["):
		return "set"
	case strings.ContainsAny(pat, "\n\r"):
		return "line-break"
	case strings.ContainsAny(pat, "\\"):
		return "escape"
	case strings.ContainsAny(pat, "*?+!"):
		return "special"
	case strings.ContainsAny(pat, " ~^:\t"):
		return "ref-forbidden"
	}
	return "ordinary"
}

func TestC17(t *testing.T) {
	hx.Main(t, "C17", func(r *hx.Run) {
		r.Rule = "all strings up to length 5 (thorough 6) over {a b / . * ? + [ ] - ! \\ space ~ ^ : \\n \\t é}, both validators; random longer strings; sampled through the linter (plain/single/double quoted), and workflows with 1-4 events x branches/tags/paths(-ignore) filters whose patterns come from a pool of three strings (the same string as ref and as path filter, earlier and later). Oracle: three-valued reference validator (cheat sheet + git ref character rules; 'undecided' strings are not compared), implication ref=>path, column inside the pattern and equal to the named character. Non-trivial = string containing a special, ref-forbidden, whitespace or non-ASCII character; distinct by construction / by string hash."
		r.Assumptions = []string{"a set with a single character is reported (pinned by glob_test.go)", "path values with leading/trailing space are reported (pinned by ValidatePathGlob tests)", "ref strings involving multi-character git rules (.., //, @{, leading-dot components, .lock) or ref-forbidden characters inside a set are treated as undecided by the documentation"}
		nviol := 0
		idx := int64(0)
		mine := func() bool { idx++; return int(idx%int64(hx.P.NShards)) == hx.P.Shard }
		maxLen := hx.N(5, 6)
		undecided := int64(0)
		cls := map[string]int64{}
		var rec func(cur []rune)
		rec = func(cur []rune) {
			if nviol > 10 {
				return
			}
			if len(cur) > 0 && mine() {
				s := string(cur)
				r.Eval()
				nt := false
				for _, c := range cur {
					if c != 'a' && c != 'b' {
						nt = true
					}
				}
				if nt {
					r.NTSeq(1)
				}
				if refGlob(s, true) == -1 {
					undecided++
				}
				cls[globClass(s)]++
				if idx%200003 == 0 {
					r.Sample(s)
				}
				if k, m := checkGlob(s); k != "" {
					if r.Report(k, m, "C17/glob", &globCase{s}) {
						nviol++
					}
				}
			}
			if len(cur) == maxLen {
				return
			}
			for _, c := range c17Alpha {
				rec(append(cur, c))
			}
		}
		rec(nil)
		for k, v := range cls {
			r.ClassN("exhaustive/"+k, v)
		}
		r.Extra["ref_verdict_undecided_by_documentation"] = undecided
		r.Exhaustive = true
		r.Extra["exhaustive_scope"] = fmt.Sprintf("all strings of 1..%d characters over the 19-character alphabet", maxLen)
		gen := rapid.Custom(func(rt *rapid.T) string {
			n := rapid.IntRange(6, 40).Draw(rt, "n")
			var b strings.Builder
			for i := 0; i < n; i++ {
				if rapid.IntRange(0, 9).Draw(rt, "k") < 4 {
					b.WriteString(rapid.SampledFrom([]string{"a", "b", "main", "release", "v1", "0-9", "a-z", "feature", "src", "docs"}).Draw(rt, "w"))
				} else {
					b.WriteRune(rapid.SampledFrom(c17Alpha).Draw(rt, "c"))
				}
			}
			return b.String()
		})
		r.Check(t, "random-long", hx.N(20000, 500000), func(rt *rapid.T) {
			s := gen.Draw(rt, "pat")
			r.Eval()
			r.NT(s)
			r.Class("random/" + globClass(s))
			r.Sample(s)
			if k, m := checkGlob(s); k != "" {
				r.Fail(rt, k, m, "C17/glob", &globCase{s})
			}
		})
		r.Check(t, "through-linter", hx.N(2000, 40000), func(rt *rapid.T) {
			n := rapid.IntRange(1, 10).Draw(rt, "n")
			var b strings.Builder
			for i := 0; i < n; i++ {
				b.WriteRune(rapid.SampledFrom([]rune{'a', 'b', '/', '.', '*', '?', '+', '[', ']', '-', '!', '\\', ' ', '~', '^', ':'}).Draw(rt, "c"))
			}
			s := b.String()
			q := rapid.SampledFrom([]string{"", "'", "\""}).Draw(rt, "quote")
			if q == "" && (!yamlPlainSafe(s) || strings.ContainsAny(s[:1], "*?[]!-~^:\\+.") || strings.ContainsAny(s, "[]")) {
				q = "'"
			}
			if q == "\"" && strings.ContainsAny(s, "\\\"") {
				q = "'"
			}
			if strings.TrimSpace(s) != s && q == "" {
				q = "'"
			}
			isRef := rapid.Bool().Draw(rt, "ref")
			r.Eval()
			r.NT(s, q, fmt.Sprint(isRef))
			r.Class("linter/quote=" + map[string]string{"": "plain", "'": "single", "\"": "double"}[q])
			if k, m := checkGlobThroughLinter(s, isRef, q); k != "" {
				r.Fail(rt, k, m, "C17/glob", &globCase{s})
			}
		})
		// several events and filters in one workflow, patterns drawn from a pool of three strings so that
		// the same string occurs as ref filter and as path filter, earlier and later in the file: every
		// occurrence is validated by the syntax of its own filter kind
		r.Check(t, "through-linter-several-filters", hx.N(1500, 30000), func(rt *rapid.T) {
			var pool []string
			for i := 0; i < 3; i++ {
				n := rapid.IntRange(1, 6).Draw(rt, "n")
				var b strings.Builder
				for j := 0; j < n; j++ {
					b.WriteRune(rapid.SampledFrom([]rune{'a', 'b', '/', '.', '*', '?', '+', '[', ']', '-', '!', '\\', ' ', '~', '^', ':'}).Draw(rt, "c"))
				}
				pool = append(pool, b.String())
			}
			c := &c17Multi{}
			// webhook events with filters, interleaved with events that have none
			events := rapid.Permutation([]string{"push", "pull_request", "pull_request_target", "workflow_run", "workflow_dispatch", "schedule", "workflow_call", "repository_dispatch", "issues"}).Draw(rt, "events")
			events = events[:rapid.IntRange(1, 6).Draw(rt, "nevents")]
			for _, ev := range events {
				switch ev {
				case "workflow_dispatch", "schedule", "workflow_call", "repository_dispatch", "issues":
					c.Events = append(c.Events, c17Event{Name: ev})
					continue
				}
				var kinds []string
				pick := func(a, b string) {
					switch rapid.IntRange(0, 2).Draw(rt, "pick") {
					case 0:
						kinds = append(kinds, a)
					case 1:
						kinds = append(kinds, b)
					}
				}
				pick("branches", "branches-ignore")
				if ev == "push" {
					pick("tags", "tags-ignore")
				}
				if ev != "workflow_run" {
					pick("paths", "paths-ignore")
				}
				kinds = rapid.Permutation(kinds).Draw(rt, "kindorder")
				f := c17Event{Name: ev}
				for _, k := range kinds {
					fl := c17Filter{Kind: k}
					for i := rapid.IntRange(1, 3).Draw(rt, "npat"); i > 0; i-- {
						fl.Pats = append(fl.Pats, rapid.SampledFrom(pool).Draw(rt, "pat"))
					}
					f.Filters = append(f.Filters, fl)
				}
				c.Events = append(c.Events, f)
			}
			k, m, both := checkSeveralFilters(c)
			r.Eval()
			if both {
				r.NT(fmt.Sprint(c))
				r.Class("several-filters/same-string-as-ref-and-path-filter")
			}
			r.Class(fmt.Sprintf("several-filters/events=%d", len(c.Events)))
			if k != "" {
				r.Fail(rt, k, m, "C17/several", c)
			}
		})
	})
}
