package checks

import (
	"encoding/json"
	"fmt"
	"regexp"
	"sort"
	"strings"
	"testing"

	al "github.com/rhysd/actionlint"
	"pgregory.net/rapid"
	"verifharness/hx"
)

// ---- C06: unknown (any) types never cause a diagnostic ------------------------------------------

// tyd is a structural type description that can be loosened and rebuilt.
type tyd struct {
	Kind  string          `json:"k"` // any null num bool str obj arr map
	Props map[string]*tyd `json:"p,omitempty"`
	Order []string        `json:"o,omitempty"`
	Elem  *tyd            `json:"e,omitempty"`
	Open  bool            `json:"open,omitempty"`
}

func (t *tyd) build() al.ExprType {
	switch t.Kind {
	case "any":
		return al.AnyType{}
	case "null":
		return al.NullType{}
	case "num":
		return al.NumberType{}
	case "bool":
		return al.BoolType{}
	case "str":
		return al.StringType{}
	case "arr":
		return &al.ArrayType{Elem: t.Elem.build()}
	case "map":
		return al.NewMapObjectType(t.Elem.build())
	default:
		p := map[string]al.ExprType{}
		for k, v := range t.Props {
			p[k] = v.build()
		}
		if t.Open {
			return al.NewObjectType(p)
		}
		return al.NewStrictObjectType(p)
	}
}

func (t *tyd) String() string { return t.build().String() }

func genTyd(t *rapid.T, depth int) *tyd {
	k := rapid.IntRange(0, 10).Draw(t, "tk")
	if depth <= 0 {
		k = k % 5
	}
	switch k {
	case 0:
		return &tyd{Kind: "str"}
	case 1:
		return &tyd{Kind: "num"}
	case 2:
		return &tyd{Kind: "bool"}
	case 3:
		return &tyd{Kind: "null"}
	case 4:
		return &tyd{Kind: "any"}
	case 5, 6:
		return &tyd{Kind: "arr", Elem: genTyd(t, depth-1)}
	case 7:
		return &tyd{Kind: "map", Elem: genTyd(t, depth-1)}
	default:
		return genObj(t, depth, 0)
	}
}

func genObj(t *rapid.T, depth, minProps int) *tyd {
	n := rapid.IntRange(minProps, 3).Draw(t, "np")
	o := &tyd{Kind: "obj", Props: map[string]*tyd{}, Open: rapid.IntRange(0, 4).Draw(t, "open") == 0}
	for i := 0; i < n; i++ {
		name := string(rune('a' + i))
		if i > 0 && rapid.IntRange(0, 2).Draw(t, "twin") == 0 {
			// a twin of an earlier member: same shape (so that merging the two is interesting)
			tw := cloneTyd(o.Props[o.Order[rapid.IntRange(0, i-1).Draw(t, "twinof")]])
			if rapid.Bool().Draw(t, "twinchange") {
				// same shape except at one nested position
				var occ []*tyd
				occurrencesOf(tw, &occ)
				if len(occ) > 1 {
					x := occ[rapid.IntRange(1, len(occ)-1).Draw(t, "twinocc")]
					*x = *genTyd(t, 1)
				}
			}
			o.Props[name] = tw
		} else {
			o.Props[name] = genTyd(t, depth-1)
		}
		o.Order = append(o.Order, name)
	}
	return o
}

func occurrencesOf(root *tyd, acc *[]*tyd) {
	*acc = append(*acc, root)
	if root.Elem != nil {
		occurrencesOf(root.Elem, acc)
	}
	for _, k := range root.Order {
		occurrencesOf(root.Props[k], acc)
	}
}

// env is a typing environment: one object type per context.
type tenv struct {
	Ctx   map[string]*tyd `json:"ctx"`
	Names []string        `json:"names"`
}

var c06Contexts = []string{"matrix", "steps", "needs", "inputs", "secrets", "jobs"}

type c06gen struct {
	t       *rapid.T
	env     *tenv
	visited map[*tyd]bool
}

// chain draws an access chain rooted at a context and returns its text and (statically known) type.
func (g *c06gen) chain() (string, *tyd) {
	t := g.t
	var b strings.Builder
	ctx := rapid.SampledFrom(g.env.Names).Draw(t, "ctx")
	b.WriteString(ctx)
	cur := g.env.Ctx[ctx]
	g.visited[cur] = true
	return g.walk(&b, cur)
}

// merged draws `(ctx.p || ctx.q)` (or &&) over two members of one context - preferably twins of the
// same shape - and continues the access chain along the first member's type.
func (g *c06gen) merged() (string, *tyd) {
	t := g.t
	ctx := rapid.SampledFrom(g.env.Names).Draw(t, "mctx")
	root := g.env.Ctx[ctx]
	if len(root.Order) < 2 {
		return g.chain()
	}
	i := rapid.IntRange(0, len(root.Order)-1).Draw(t, "m1")
	j := rapid.IntRange(0, len(root.Order)-2).Draw(t, "m2")
	if j >= i {
		j++
	}
	p, q := root.Order[i], root.Order[j]
	g.visited[root] = true
	g.visited[root.Props[p]] = true
	g.visited[root.Props[q]] = true
	markAll(g.visited, root.Props[q])
	op := rapid.SampledFrom([]string{"||", "&&"}).Draw(t, "mop")
	var b strings.Builder
	b.WriteString("(" + ctx + "." + p + " " + op + " " + ctx + "." + q + ")")
	return g.walk(&b, root.Props[p])
}

func markAll(v map[*tyd]bool, t *tyd) {
	v[t] = true
	if t.Elem != nil {
		markAll(v, t.Elem)
	}
	for _, k := range t.Order {
		markAll(v, t.Props[k])
	}
}

// walk continues an access chain from a value of (statically known) type cur.
func (g *c06gen) walk(bp *strings.Builder, cur *tyd) (string, *tyd) {
	t := g.t
	b := bp
	anyT := &tyd{Kind: "any"}
	for i := 0; i < 5; i++ {
		if rapid.IntRange(0, 3).Draw(t, "stop") == 0 {
			break
		}
		switch cur.Kind {
		case "obj":
			opt := rapid.IntRange(0, 9).Draw(t, "oo")
			switch {
			case len(cur.Order) > 0 && opt < 6:
				k := rapid.SampledFrom(cur.Order).Draw(t, "k")
				switch opt % 3 {
				case 0:
					b.WriteString("['" + k + "']")
				case 1:
					b.WriteString("." + strings.ToUpper(k))
				default:
					b.WriteString("." + k)
				}
				cur = cur.Props[k]
			case opt == 6:
				b.WriteString(".*")
				cur = anyT
			case opt == 7:
				b.WriteString(".zz")
				cur = anyT
			case opt == 8:
				b.WriteString("[" + g.expr(1) + "]")
				cur = anyT
			default:
				b.WriteString("['zz']")
				cur = anyT
			}
		case "map":
			switch rapid.IntRange(0, 2).Draw(t, "mm") {
			case 0:
				b.WriteString(".q")
				cur = cur.Elem
			case 1:
				b.WriteString("['q']")
				cur = cur.Elem
			default:
				b.WriteString(".*")
				cur = anyT
			}
		case "arr":
			switch rapid.IntRange(0, 4).Draw(t, "aa") {
			case 0, 1:
				b.WriteString("[0]")
				cur = cur.Elem
			case 2:
				b.WriteString(".*")
				cur = anyT
			case 3:
				b.WriteString("[" + g.expr(1) + "]")
				cur = cur.Elem
			default:
				b.WriteString(".p")
				cur = anyT
			}
		default:
			switch rapid.IntRange(0, 5).Draw(t, "ss") {
			case 0:
				b.WriteString(".x")
			case 1:
				b.WriteString("[0]")
			case 2:
				b.WriteString(".*")
			case 3:
				b.WriteString("['y']")
			default:
				return b.String(), cur
			}
			cur = anyT
		}
		g.visited[cur] = true
	}
	return b.String(), cur
}

func (g *c06gen) expr(depth int) string {
	t := g.t
	k := rapid.IntRange(0, 11).Draw(t, "ek")
	if depth <= 0 {
		k = k % 2
	}
	switch k {
	case 0:
		s, _ := g.chain()
		return s
	case 10:
		s, _ := g.merged()
		return s
	case 1:
		return rapid.SampledFrom([]string{"'s'", "1", "true", "null", "'{0} {1}'", "0x1f", "1.5"}).Draw(t, "lit")
	case 2:
		return "!" + g.expr(depth-1)
	case 3:
		op := rapid.SampledFrom([]string{"==", "!=", "<", ">=", ">", "<=", "&&", "||"}).Draw(t, "op")
		return "(" + g.expr(depth-1) + " " + op + " " + g.expr(depth-1) + ")"
	case 4:
		f := rapid.SampledFrom([]string{"contains(%s, %s)", "startsWith(%s, %s)", "endsWith(%s, %s)", "format(%s, %s)", "join(%s, %s)", "format('{0}{1}', %s, %s)"}).Draw(t, "f2")
		return fmt.Sprintf(f, g.expr(depth-1), g.expr(depth-1))
	case 5:
		f := rapid.SampledFrom([]string{"toJSON(%s)", "fromJSON(%s)", "join(%s)", "hashFiles(%s)", "format('{0}', %s)"}).Draw(t, "f1")
		return fmt.Sprintf(f, g.expr(depth-1))
	case 6:
		s, _ := g.chain()
		return s + "[" + g.expr(depth-1) + "]"
	case 7:
		return "(" + g.expr(depth-1) + " && " + g.expr(depth-1) + " || " + g.expr(depth-1) + ")"
	case 8:
		// fromJSON of a literal: statically typed from the JSON text
		j := rapid.SampledFrom([]string{`{"a":1,"b":"x"}`, `[1,2]`, `{"a":{"b":[true]}}`, `"s"`, `null`, `[{"a":1}]`}).Draw(t, "json")
		acc := rapid.SampledFrom([]string{"", ".a", "[0]", ".a.b", ".*", "[0].a"}).Draw(t, "jacc")
		return "fromJSON('" + j + "')" + acc
	case 9:
		return "success() && " + g.expr(depth-1)
	default:
		return "(" + g.expr(depth-1) + ")"
	}
}

type c06Case struct {
	Env   *tenv  `json:"env"`
	Src   string `json:"src"`
	Loose *tenv  `json:"loose"` // environment after loosening
	What  string `json:"what"`
}

func semaCheck(env *tenv, src string) ([]*al.ExprError, error) {
	e, perr := al.NewExprParser().Parse(al.NewExprLexer(src + "}}"))
	if perr != nil {
		return nil, fmt.Errorf("unparsable %q: %v", src, perr)
	}
	c := al.NewExprSemanticsChecker(false, nil)
	c.SetContextAvailability([]string{"matrix", "steps", "needs", "inputs", "secrets", "jobs", "github", "env"})
	c.SetSpecialFunctionAvailability([]string{"hashfiles", "success", "always", "failure", "cancelled"})
	for name, d := range env.Ctx {
		o, ok := d.build().(*al.ObjectType)
		if !ok {
			return nil, fmt.Errorf("context %s is not an object", name)
		}
		switch name {
		case "matrix":
			c.UpdateMatrix(o)
		case "steps":
			c.UpdateSteps(o)
		case "needs":
			c.UpdateNeeds(o)
		case "inputs":
			c.UpdateInputs(o)
		case "secrets":
			c.UpdateSecrets(o)
		case "jobs":
			c.UpdateJobs(o)
		}
	}
	_, errs := c.Check(e)
	return errs, nil
}

func errMsgs(es []*al.ExprError) []string {
	var s []string
	for _, e := range es {
		s = append(s, e.Error())
	}
	return s
}

func checkLoosening(c *c06Case) (key, msg string, accepted bool) {
	var e1, e2 []*al.ExprError
	var err error
	var pan any
	func() {
		defer func() { pan = recover() }()
		e1, err = semaCheck(c.Env, c.Src)
		if err != nil || len(e1) > 0 {
			return
		}
		e2, err = semaCheck(c.Loose, c.Src)
	}()
	if pan != nil {
		return "C06/panic", fmt.Sprintf("panic %v on %q", pan, c.Src), false
	}
	if err != nil {
		return "harness/c06-unparsable", err.Error(), false
	}
	if len(e1) > 0 {
		return "", "", false
	}
	if len(e2) > 0 {
		key := "C06/loosening-introduces-diagnostic"
		all := true
		for _, e := range e2 {
			if !strings.Contains(e.Message, "cannot be filtered by object filtering `.*` since it has no object element") {
				all = false
			}
		}
		if all {
			key = "C06/object-filter-on-object-with-only-any-members"
		}
		return key, fmt.Sprintf("%q is accepted under %s but after %s reports %v (loosened env %s)", c.Src, envString(c.Env), c.What, errMsgs(e2), envString(c.Loose)), true
	}
	return "", "", true
}

func envString(e *tenv) string {
	var parts []string
	for _, n := range e.Names {
		parts = append(parts, n+": "+e.Ctx[n].String())
	}
	return "{" + strings.Join(parts, ", ") + "}"
}

func cloneTyd(t *tyd) *tyd {
	if t == nil {
		return nil
	}
	c := *t
	c.Elem = cloneTyd(t.Elem)
	if t.Props != nil {
		c.Props = map[string]*tyd{}
		for k, v := range t.Props {
			c.Props[k] = cloneTyd(v)
		}
	}
	c.Order = append([]string(nil), t.Order...)
	return &c
}

// ---- end-to-end variant ---------------------------------------------------------------------------

type c06wfCase struct {
	Base  string `json:"base"`
	Loose string `json:"loose"`
	What  string `json:"what"`
}

func checkWorkflowLoosening(c *c06wfCase) (key, msg string, nontrivial bool) {
	d1, err, pan, st := lintSafe([]byte(c.Base))
	if pan != nil {
		return "C06/panic", fmt.Sprintf("panic %v at %s\n%s", pan, st, c.Base), false
	}
	if err != nil || len(d1) > 0 {
		return "", "", false // base not clean: nothing to compare (counted as discarded by the caller)
	}
	d2, err, pan, st := lintSafe([]byte(c.Loose))
	if pan != nil {
		return "C06/panic", fmt.Sprintf("panic %v at %s\n%s", pan, st, c.Loose), true
	}
	if err != nil {
		return "C06/linter-fatal", fmt.Sprintf("%v\n%s", err, c.Loose), true
	}
	if len(d2) > 0 {
		return "C06/workflow-loosening-introduces-diagnostic", fmt.Sprintf("clean workflow reports %v after %s\n--- base\n%s\n--- loosened\n%s", diagStrings(d2), c.What, c.Base, c.Loose), true
	}
	return "", "", true
}

func init() {
	hx.RegisterReplayer("C06/sema", func(r *hx.Run, data json.RawMessage) {
		var c c06Case
		if err := json.Unmarshal(data, &c); err != nil {
			panic(err)
		}
		if k, m, _ := checkLoosening(&c); k != "" {
			r.Report(k, m, "C06/sema", &c)
		}
	})
	hx.RegisterReplayer("C06/workflow-subset", func(r *hx.Run, data json.RawMessage) {
		var c c06wfCase
		if err := json.Unmarshal(data, &c); err != nil {
			panic(err)
		}
		base, _, _, _ := lintSafe([]byte(c.Base))
		got, _, _, _ := lintSafe([]byte(c.Loose))
		have := map[string]bool{}
		for _, d := range base {
			have[fmt.Sprintf("%d:%d:%s", d.Line, d.Col, d.Kind)] = true
		}
		for _, d := range got {
			if !have[fmt.Sprintf("%d:%d:%s", d.Line, d.Col, d.Kind)] {
				r.Report("C06/step-id-as-expression-introduces-diagnostic", fmt.Sprintf("diagnostic %s appears only after %s", d, c.What), "C06/workflow-subset", &c)
				return
			}
		}
	})
	hx.RegisterReplayer("C06/merged-member", func(r *hx.Run, data json.RawMessage) {
		var c c06Case
		if err := json.Unmarshal(data, &c); err != nil {
			panic(err)
		}
		if k, m := checkMergedMember(&c, c.What == "expected accepted=true"); k != "" {
			r.Report(k, m, "C06/merged-member", &c)
		}
	})
	hx.RegisterReplayer("C06/dispatch-type-removed", func(r *hx.Run, data json.RawMessage) {
		var c c06wfCase
		if err := json.Unmarshal(data, &c); err != nil {
			panic(err)
		}
		if k, m := checkTypeRemoved(&c); k != "" {
			r.Report(k, m, "C06/dispatch-type-removed", &c)
		}
	})
	hx.RegisterReplayer("C06/workflow", func(r *hx.Run, data json.RawMessage) {
		var c c06wfCase
		if err := json.Unmarshal(data, &c); err != nil {
			panic(err)
		}
		if k, m, _ := checkWorkflowLoosening(&c); k != "" {
			r.Report(k, m, "C06/workflow", &c)
		}
	})
}

func TestC06(t *testing.T) {
	hx.Main(t, "C06", func(r *hx.Run) {
		r.Rule = "typing environment (object types for matrix/steps/needs/inputs/secrets/jobs: nested strict/open objects, maps, arrays, scalars, any) x expression drawn over it (chains with .name ['name'] [i] .* , all operators, built-in calls, fromJSON of literals) x one loosening (one type occurrence -> any, or a closed object -> open). Oracle: accepted under the environment => accepted under the loosened one. Non-trivial = accepted under the original environment and the loosened occurrence is on a path the expression visits; distinct = hash(expression, environment, loosening). End-to-end variant: clean generated workflow whose matrix row / include / whole matrix is replaced by ${{ fromJSON(...) }} must stay clean."
		r.Assumptions = []string{"contexts and special functions are declared available so that availability diagnostics do not interfere", "only monotone loosenings are generated (a type occurrence replaced by any; a strict object made open)"}
		var accepted, total int64
		r.Check(t, "sema-loosening", hx.N(40000, 600000), func(rt *rapid.T) {
			env := &tenv{Ctx: map[string]*tyd{}}
			nctx := rapid.IntRange(1, 3).Draw(rt, "nctx")
			for i := 0; i < nctx; i++ {
				name := rapid.SampledFrom(c06Contexts).Draw(rt, "ctxname")
				if _, ok := env.Ctx[name]; ok {
					continue
				}
				env.Ctx[name] = genObj(rt, 3, 1)
				env.Names = append(env.Names, name)
			}
			sort.Strings(env.Names)
			g := &c06gen{t: rt, env: env, visited: map[*tyd]bool{}}
			src := g.expr(3)
			// choose a loosening
			var occ []*tyd
			var roots []*tyd
			for _, n := range env.Names {
				roots = append(roots, env.Ctx[n])
				occurrencesOf(env.Ctx[n], &occ)
			}
			var vis []*tyd
			for _, x := range occ {
				if g.visited[x] {
					vis = append(vis, x)
				}
			}
			var o *tyd
			if len(vis) > 0 && rapid.IntRange(0, 9).Draw(rt, "pickvisited") < 8 {
				o = vis[rapid.IntRange(0, len(vis)-1).Draw(rt, "vocc")]
			} else {
				o = occ[rapid.IntRange(0, len(occ)-1).Draw(rt, "occ")]
			}
			isRoot := false
			for _, rt0 := range roots {
				if rt0 == o {
					isRoot = true
				}
			}
			saved := *o
			what := ""
			visited := g.visited[o]
			if o.Kind == "obj" && !o.Open && (isRoot || rapid.Bool().Draw(rt, "openit")) {
				what = fmt.Sprintf("opening the closed object %s", saved.String())
			} else if isRoot {
				what = ""
			} else {
				what = fmt.Sprintf("replacing the occurrence of type %s by any", saved.String())
			}
			total++
			r.Eval()
			if what == "" {
				r.Class("no-loosening-possible")
				return
			}
			// build the loosened environment as a deep copy
			loose := &tenv{Ctx: map[string]*tyd{}, Names: env.Names}
			if strings.HasPrefix(what, "opening") {
				o.Open = true
			} else {
				*o = tyd{Kind: "any"}
			}
			for n, d := range env.Ctx {
				loose.Ctx[n] = cloneTyd(d)
			}
			*o = saved
			c := &c06Case{Env: env, Src: src, Loose: loose, What: what}
			k, m, acc := checkLoosening(c)
			if acc {
				accepted++
				if visited {
					r.NT(src, envString(env), what)
					r.Class("accepted/loosened-occurrence-visited")
				} else {
					r.Class("accepted/loosened-occurrence-not-visited")
				}
				r.Sample(map[string]string{"expr": src, "env": envString(env), "loosening": what})
			} else {
				r.Class("rejected-under-original-environment")
			}
			if k != "" {
				r.Fail(rt, k, m, "C06/sema", c)
			}
		})
		r.Extra["accepted_under_original_env"] = accepted

		// directed generator for type merging: two members of the same structured shape that differ at
		// one nested position, merged by || / && (or by fromJSON-free index expressions), then used.
		r.Check(t, "merge-of-similar-structures", hx.N(20000, 300000), func(rt *rapid.T) {
			shape := func(depth int) *tyd {
				// array/object heavy shapes
				var mk func(d int) *tyd
				mk = func(d int) *tyd {
					k := rapid.IntRange(0, 6).Draw(rt, "sk")
					if d <= 0 {
						k = k % 3
					}
					switch k {
					case 0:
						return &tyd{Kind: "str"}
					case 1:
						return &tyd{Kind: rapid.SampledFrom([]string{"num", "bool", "null"}).Draw(rt, "sc")}
					case 2:
						return &tyd{Kind: "any"}
					case 3, 4:
						return &tyd{Kind: "arr", Elem: mk(d - 1)}
					default:
						o := &tyd{Kind: "obj", Props: map[string]*tyd{}}
						for i := 0; i < rapid.IntRange(1, 2).Draw(rt, "snp"); i++ {
							n := string(rune('a' + i))
							o.Props[n] = mk(d - 1)
							o.Order = append(o.Order, n)
						}
						return o
					}
				}
				t := mk(depth)
				if t.Kind != "arr" && t.Kind != "obj" {
					t = &tyd{Kind: "arr", Elem: t}
				}
				return t
			}
			p := shape(3)
			q := cloneTyd(p)
			var qocc []*tyd
			occurrencesOf(q, &qocc)
			var changed *tyd
			if len(qocc) > 1 {
				changed = qocc[rapid.IntRange(1, len(qocc)-1).Draw(rt, "chg")]
				*changed = *shape(1)
				if rapid.Bool().Draw(rt, "scalarchg") {
					*changed = tyd{Kind: rapid.SampledFrom([]string{"str", "num", "any"}).Draw(rt, "chgk")}
				}
			}
			root := &tyd{Kind: "obj", Props: map[string]*tyd{"p": p, "q": q}, Order: []string{"p", "q"}}
			env := &tenv{Ctx: map[string]*tyd{"matrix": root}, Names: []string{"matrix"}}
			g := &c06gen{t: rt, env: env, visited: map[*tyd]bool{}}
			var b strings.Builder
			first, second := "p", "q"
			if rapid.Bool().Draw(rt, "swap") {
				first, second = "q", "p"
			}
			op := rapid.SampledFrom([]string{"||", "&&"}).Draw(rt, "op")
			b.WriteString("(matrix." + first + " " + op + " matrix." + second + ")")
			// walk along either member's structure
			along := root.Props[rapid.SampledFrom([]string{"p", "q"}).Draw(rt, "along")]
			src, _ := g.walk(&b, along)
			if rapid.Bool().Draw(rt, "wrap") {
				src = rapid.SampledFrom([]string{"format('{0}', %s)", "toJSON(%s)", "%s == 'x'", "contains(%s, 'x')", "!%s"}).Draw(rt, "wrapf")
				src = fmt.Sprintf(src, b.String())
			}
			// loosening: the changed position (or another occurrence of q / p)
			var occ []*tyd
			occurrencesOf(root, &occ)
			o := occ[rapid.IntRange(1, len(occ)-1).Draw(rt, "locc")]
			if changed != nil && rapid.IntRange(0, 2).Draw(rt, "atchanged") > 0 {
				o = changed
			}
			saved := *o
			what := fmt.Sprintf("replacing the occurrence of type %s by any", saved.String())
			if o.Kind == "obj" && !o.Open && rapid.Bool().Draw(rt, "openit") {
				what = fmt.Sprintf("opening the closed object %s", saved.String())
				o.Open = true
			} else if o.Kind == "any" {
				r.Eval()
				r.Class("merge/no-loosening-possible")
				return
			} else {
				*o = tyd{Kind: "any"}
			}
			loose := &tenv{Ctx: map[string]*tyd{"matrix": cloneTyd(root)}, Names: env.Names}
			*o = saved
			c := &c06Case{Env: env, Src: src, Loose: loose, What: what}
			k, m, acc := checkLoosening(c)
			r.Eval()
			if acc {
				r.NT(src, envString(env), what)
				r.Class("merge/accepted")
				r.Sample(map[string]string{"expr": src, "env": envString(env), "loosening": what})
			} else {
				r.Class("merge/rejected-under-original-environment")
			}
			if k != "" {
				r.Fail(rt, k, m, "C06/sema", c)
			}
		})

		// defining sections given by an expression instead of a literal (step ids): never a new diagnostic
		reIDLine := regexp.MustCompile(`(?m)^(\s+(?:- )?)id: (\S+)$`)
		r.Check(t, "definition-becomes-expression", hx.N(1500, 30000), func(rt *rapid.T) {
			c5, _, _ := genC05Shape(rt, nil)
			locs := reIDLine.FindAllStringSubmatchIndex(c5.YAML, -1)
			if len(locs) == 0 {
				r.Eval()
				r.Class("definition-becomes-expression/no-step-id")
				return
			}
			loosened := c5.YAML
			// replace 1-2 ids, from the end so that offsets stay valid
			n := rapid.IntRange(1, min(2, len(locs))).Draw(rt, "nids")
			picks := map[int]bool{}
			for len(picks) < n {
				picks[rapid.IntRange(0, len(locs)-1).Draw(rt, "idpick")] = true
			}
			for i := len(locs) - 1; i >= 0; i-- {
				if picks[i] {
					id := loosened[locs[i][4]:locs[i][5]]
					loosened = loosened[:locs[i][4]] + "${{ format('{0}', '" + id + "') }}" + loosened[locs[i][5]:]
				}
			}
			base, err1, p1, _ := lintSafe([]byte(c5.YAML))
			got, err2, p2, _ := lintSafe([]byte(loosened))
			r.Eval()
			if p1 != nil || p2 != nil || err1 != nil || err2 != nil {
				return
			}
			have := map[string]bool{}
			for _, d := range base {
				have[fmt.Sprintf("%d:%d:%s", d.Line, d.Col, d.Kind)] = true
			}
			r.NT(loosened)
			r.Class("definition-becomes-expression/step-id")
			for _, d := range got {
				if !have[fmt.Sprintf("%d:%d:%s", d.Line, d.Col, d.Kind)] {
					c := &c06wfCase{Base: c5.YAML, Loose: loosened, What: "writing step ids as expressions"}
					r.Fail(rt, "C06/step-id-as-expression-introduces-diagnostic", fmt.Sprintf("diagnostic %s appears only after step ids were written as expressions\n--- base\n%s\n--- loosened\n%s", d, c5.YAML, loosened), "C06/workflow-subset", c)
				}
			}
		})
		r.Check(t, "workflow-loosening", hx.N(1500, 30000), func(rt *rapid.T) {
			// matrix with rows; steps referencing them
			type row struct {
				key  string
				vals []string // yaml flow values
				kind string   // str num obj arr
			}
			var rows []row
			nr := rapid.IntRange(1, 3).Draw(rt, "nrows")
			for i := 0; i < nr; i++ {
				k := fmt.Sprintf("k%d", i)
				switch rapid.IntRange(0, 4).Draw(rt, "rk") {
				case 4:
					rows = append(rows, row{k, []string{"[self-hosted, linux]", "[self-hosted, x64]"}, "labels"})
				case 0:
					rows = append(rows, row{k, []string{"a", "b"}, "str"})
				case 1:
					rows = append(rows, row{k, []string{"1", "2"}, "num"})
				case 2:
					rows = append(rows, row{k, []string{"{p: 1, q: x}", "{p: 2, q: y, r: z}"}, "obj"}) // r: a member only the later value has
				default:
					rows = append(rows, row{k, []string{"[1, 2]", "[3]"}, "arr"})
				}
			}
			// a row of label lists may be what runs-on takes its labels from
			runsOn := "ubuntu-latest"
			for _, rw := range rows {
				if rw.kind == "labels" && rapid.Bool().Draw(rt, "runsonfrommatrix") {
					runsOn = "${{ matrix." + rw.key + " }}"
				}
			}
			hasInc := rapid.Bool().Draw(rt, "inc")
			var uses []string
			for _, rw := range rows {
				switch rw.kind {
				case "str":
					uses = append(uses, "matrix."+rw.key, "startsWith(matrix."+rw.key+", 'a')", "format('{0}', matrix."+rw.key+")")
				case "num":
					uses = append(uses, "matrix."+rw.key+" > 1", "matrix."+rw.key)
				case "obj":
					uses = append(uses, "matrix."+rw.key+".p", "matrix."+rw.key+".q == 'x'", "toJSON(matrix."+rw.key+")", "matrix."+rw.key+".r", "matrix."+rw.key+".r")
				case "labels":
					uses = append(uses, "matrix."+rw.key+"[0]", "join(matrix."+rw.key+", ',')", "contains(matrix."+rw.key+", 'linux')")
				case "arr":
					uses = append(uses, "matrix."+rw.key+"[0]", "join(matrix."+rw.key+", ',')", "contains(matrix."+rw.key+", 1)")
				}
			}
			if hasInc {
				uses = append(uses, "matrix.extra", "matrix.extra == 'yes'")
			}
			nuse := rapid.IntRange(1, 4).Draw(rt, "nuse")
			var chosen []string
			for i := 0; i < nuse; i++ {
				chosen = append(chosen, rapid.SampledFrom(uses).Draw(rt, "use"))
			}
			mode := rapid.SampledFrom([]string{"row", "include", "matrix", "row-element", "nested-element"}).Draw(rt, "mode")
			if mode == "include" && !hasInc {
				mode = "row"
			}
			target := rapid.IntRange(0, len(rows)-1).Draw(rt, "target")
			// the replacing expression: of type any, or an array whose elements are any
			looseExpr := "fromJSON(github.event.inputs.x)"
			if mode == "row" || mode == "include" {
				looseExpr = rapid.SampledFrom([]string{"fromJSON(github.event.inputs.x)", "fromJSON(github.event.inputs.x)", "github.event.client_payload.list.*", "fromJSON('[]')", "github.event.client_payload.list"}).Draw(rt, "looseexpr")
			}
			render := func(loosen bool) string {
				var b strings.Builder
				b.WriteString("on:\n  workflow_dispatch:\n    inputs:\n      x:\n        type: string\njobs:\n  a:\n    runs-on: " + runsOn + "\n    strategy:\n")
				if loosen && mode == "matrix" {
					b.WriteString("      matrix: ${{ fromJSON(github.event.inputs.x) }}\n")
				} else {
					b.WriteString("      matrix:\n")
					for i, rw := range rows {
						switch {
						case loosen && mode == "row" && i == target:
							fmt.Fprintf(&b, "        %s: ${{ %s }}\n", rw.key, looseExpr)
						case loosen && mode == "nested-element" && i == target && (rw.kind == "labels" || rw.kind == "arr"):
							// an element inside one of the row's list values
							inner := strings.TrimSuffix(rw.vals[0], "]") + ", '${{ fromJSON(github.event.inputs.x) }}']"
							fmt.Fprintf(&b, "        %s: [%s, %s]\n", rw.key, inner, rw.vals[1])
						case loosen && mode == "row-element" && i == target:
							fmt.Fprintf(&b, "        %s: [%s, '${{ fromJSON(github.event.inputs.x) }}']\n", rw.key, rw.vals[0])
						default:
							fmt.Fprintf(&b, "        %s: [%s]\n", rw.key, strings.Join(rw.vals, ", "))
						}
					}
					if hasInc {
						if loosen && mode == "include" {
							fmt.Fprintf(&b, "        include: ${{ %s }}\n", looseExpr)
						} else {
							b.WriteString("        include:\n          - extra: yes\n            " + rows[0].key + ": " + rows[0].vals[0] + "\n")
						}
					}
				}
				b.WriteString("    steps:\n")
				for _, u := range chosen {
					fmt.Fprintf(&b, "      - run: echo\n        env:\n          V: ${{ %s }}\n", u)
				}
				return b.String()
			}
			c := &c06wfCase{Base: render(false), Loose: render(true), What: "replacing " + mode + " by ${{ " + looseExpr + " }}"}
			r.Eval()
			k, m, nt := checkWorkflowLoosening(c)
			if nt {
				r.NT(c.Loose)
				r.Class("workflow/" + mode)
				r.Sample(c.Loose)
			} else if k == "" {
				r.Discard("generated base workflow is not clean")
				if r.Discarded < 3 {
					d, _ := lint(c.Base)
					r.Extra[fmt.Sprintf("unclean_base_sample_%d", r.Discarded)] = map[string]any{"yaml": c.Base, "diags": diagStrings(d)}
				}
			}
			if k != "" {
				r.Fail(rt, k, m, "C06/workflow", c)
			}
		})
		// members of merged objects: (x || y).name / (x && y)['name'] over closed, open, map and any
		// operands in every order. A name that no operand is known to have is accepted exactly when some
		// operand is open (or a map, or any): then nobody can know it is missing.
		r.Check(t, "unknown-member-of-merged-objects", hx.N(6000, 100000), func(rt *rapid.T) {
			n := rapid.IntRange(2, 3).Draw(rt, "noperands")
			env := &tenv{Ctx: map[string]*tyd{"steps": {Kind: "obj", Props: map[string]*tyd{}}}, Names: []string{"steps"}}
			known := map[string]bool{}
			loose := false
			var ops []string
			for i := 0; i < n; i++ {
				name := fmt.Sprintf("m%d", i)
				var ty *tyd
				switch rapid.IntRange(0, 5).Draw(rt, "operandkind") {
				case 0, 1, 2:
					ty = &tyd{Kind: "obj", Props: map[string]*tyd{}}
					for _, p := range []string{"p", "q", "r"} {
						if rapid.Bool().Draw(rt, "has"+p) {
							ty.Props[p] = &tyd{Kind: rapid.SampledFrom([]string{"str", "num", "any"}).Draw(rt, "pty")}
							ty.Order = append(ty.Order, p)
							known[p] = true
						}
					}
					if rapid.IntRange(0, 2).Draw(rt, "open") == 0 {
						ty.Open = true
						loose = true
					}
				case 3:
					ty = &tyd{Kind: "map", Elem: &tyd{Kind: "str"}}
					loose = true
				case 4:
					ty = &tyd{Kind: "any"}
					loose = true
				default:
					ty = &tyd{Kind: "obj", Props: map[string]*tyd{}} // closed and empty
				}
				env.Ctx["steps"].Props[name] = ty
				env.Ctx["steps"].Order = append(env.Ctx["steps"].Order, name)
				ops = append(ops, "steps."+name)
			}
			// one operator kind per expression: mixing && and || narrows the left operand (the value of
			// `a && b` known to be truthy is b), which is a different matter
			op := rapid.SampledFrom([]string{"||", "&&"}).Draw(rt, "op")
			src := ops[0]
			for _, o := range ops[1:] {
				src += " " + op + " " + o
			}
			if n == 3 && rapid.Bool().Draw(rt, "groupright") {
				src = ops[0] + " " + op + " (" + ops[1] + " " + op + " " + ops[2] + ")"
			}
			member := rapid.SampledFrom([]string{"p", "q", "r", "zz"}).Draw(rt, "member")
			if rapid.Bool().Draw(rt, "index") {
				src = "(" + src + ")['" + member + "']"
			} else {
				src = "(" + src + ")." + member
			}
			accept := known[member] || loose
			c := &c06Case{Env: env, Src: src, What: fmt.Sprintf("expected accepted=%v", accept)}
			r.Eval()
			if loose && !known[member] {
				r.NT(src, envString(env))
				r.Class("merged-objects/unknown-member-with-open-operand")
			} else {
				r.Class("merged-objects/other")
			}
			if k, m := checkMergedMember(c, accept); k != "" {
				r.Fail(rt, k, m, "C06/merged-member", c)
			}
		})
		// workflow_dispatch inputs: an input without `type:` is typed any. Dropping the type of one input
		// (with its options) never adds a diagnostic, whatever the other inputs are and wherever it is used.
		r.Check(t, "dispatch-input-type-removed", hx.N(1500, 30000), func(rt *rapid.T) {
			type inp struct {
				name, ty, def string
			}
			var ins []inp
			n := rapid.IntRange(2, 4).Draw(rt, "ninputs")
			for i := 0; i < n; i++ {
				in := inp{name: fmt.Sprintf("in%d", i), ty: rapid.SampledFrom([]string{"string", "boolean", "number", "choice", "environment"}).Draw(rt, "ty")}
				if rapid.Bool().Draw(rt, "hasdef") {
					in.def = map[string]string{"string": "latest", "boolean": "true", "number": "3", "choice": "o1", "environment": "prod"}[in.ty]
				}
				ins = append(ins, in)
			}
			var uses []string
			nu := rapid.IntRange(1, 5).Draw(rt, "nuses")
			for i := 0; i < nu; i++ {
				v := "inputs." + ins[rapid.IntRange(0, n-1).Draw(rt, "which")].name
				if rapid.IntRange(0, 3).Draw(rt, "viaevent") == 0 {
					v = "github.event." + v
				}
				uses = append(uses, fmt.Sprintf(rapid.SampledFrom([]string{"%s", "fromJSON(%s)", "fromJSON(%s).name", "%s.prop", "%s[0]", "%s == 1", "%s == 'x'", "startsWith(%s, 'a')", "%s && true", "format('{0}', %s)", "join(%s, ',')", "contains(%s, 'a')", "!%s", "%s.*.x", "toJSON(%s)"}).Draw(rt, "use"), v))
			}
			typedPos := rapid.SampledFrom([]string{"", "timeout-minutes", "continue-on-error", "matrix"}).Draw(rt, "typedpos")
			typedIn := ins[rapid.IntRange(0, n-1).Draw(rt, "typedin")].name
			render := func(drop int) string {
				var b strings.Builder
				b.WriteString("on:\n  workflow_dispatch:\n    inputs:\n")
				for i, in := range ins {
					fmt.Fprintf(&b, "      %s:\n        description: d\n", in.name)
					if i != drop {
						fmt.Fprintf(&b, "        type: %s\n", in.ty)
						if in.ty == "choice" {
							b.WriteString("        options: [o1, o2]\n")
						}
					}
					if in.def != "" {
						fmt.Fprintf(&b, "        default: %s\n", in.def)
					}
				}
				b.WriteString("jobs:\n  a:\n    runs-on: ubuntu-latest\n")
				if typedPos == "matrix" {
					fmt.Fprintf(&b, "    strategy:\n      matrix: ${{ fromJSON(inputs.%s) }}\n", typedIn)
				}
				b.WriteString("    steps:\n")
				for _, u := range uses {
					fmt.Fprintf(&b, "      - run: echo\n        env:\n          V: ${{ %s }}\n", u)
				}
				if typedPos == "timeout-minutes" || typedPos == "continue-on-error" {
					fmt.Fprintf(&b, "      - run: echo\n        %s: ${{ inputs.%s }}\n", typedPos, typedIn)
				}
				return b.String()
			}
			base := render(-1)
			d0, err, pan, _ := lintSafe([]byte(base))
			if pan != nil || err != nil {
				r.Fail(rt, "C06/panic", fmt.Sprintf("%v %v\n%s", pan, err, base), "C06/dispatch-type-removed", &c06wfCase{Base: base, Loose: base})
			}
			have := map[string]int{}
			for _, d := range d0 {
				have[d.Kind+"|"+d.Msg]++
			}
			for drop := 0; drop < n; drop++ {
				c := &c06wfCase{Base: base, Loose: render(drop), What: fmt.Sprintf("removing the type of input %s (%s)", ins[drop].name, ins[drop].ty)}
				r.Eval()
				r.NT(c.Loose)
				r.Class(fmt.Sprintf("dispatch-type-removed/%s/position-%d-of-%d", ins[drop].ty, drop+1, n))
				if drop == 0 {
					r.Sample(c.Loose)
				}
				if k, m := checkTypeRemoved(c); k != "" {
					r.Fail(rt, k, m, "C06/dispatch-type-removed", c)
				}
			}
		})
	})
}

// checkMergedMember: the expression is accepted iff the reference says so (What carries the expectation
// for replay).
func checkMergedMember(c *c06Case, accept bool) (key, msg string) {
	var es []*al.ExprError
	var err error
	var pan any
	func() {
		defer func() { pan = recover() }()
		es, err = semaCheck(c.Env, c.Src)
	}()
	if pan != nil {
		return "C06/panic", fmt.Sprintf("panic %v on %q", pan, c.Src)
	}
	if err != nil {
		return "harness/c06-unparsable", err.Error()
	}
	if accept && len(es) > 0 {
		return "C06/member-of-merged-open-object-rejected", fmt.Sprintf("%q under %s: some operand is open (or a map, or any) or has the member, but %v", c.Src, envString(c.Env), errMsgs(es))
	}
	if !accept && len(es) == 0 {
		return "C06/member-unknown-to-all-closed-operands-accepted", fmt.Sprintf("%q under %s: all operands are closed objects without that member, but no diagnostic", c.Src, envString(c.Env))
	}
	return "", ""
}

// checkTypeRemoved: a diagnostic of the loosened workflow below `jobs:` sits on a line that already has
// a diagnostic in the base (the message may differ: `x.*` is an array whatever x is); a diagnostic in
// the inputs section must be reported with the same message for the base.
func checkTypeRemoved(c *c06wfCase) (key, msg string) {
	d0, _, _, _ := lintSafe([]byte(c.Base))
	d1, err, pan, st := lintSafe([]byte(c.Loose))
	if pan != nil {
		return "C06/panic", fmt.Sprintf("panic %v at %s\n%s", pan, st, c.Loose)
	}
	if err != nil {
		return "C06/linter-fatal", fmt.Sprintf("%v\n%s", err, c.Loose)
	}
	jobsLine := func(y string) int {
		for i, l := range strings.Split(y, "\n") {
			if l == "jobs:" {
				return i + 1
			}
		}
		return 0
	}
	j0, j1 := jobsLine(c.Base), jobsLine(c.Loose)
	haveMsg := map[string]bool{}
	haveLine := map[int]bool{}
	for _, d := range d0 {
		haveMsg[d.Kind+"|"+d.Msg] = true
		if d.Line > j0 {
			haveLine[d.Line-j0] = true
		}
	}
	for _, d := range d1 {
		if d.Line > j1 && haveLine[d.Line-j1] || d.Line <= j1 && haveMsg[d.Kind+"|"+d.Msg] {
			continue
		}
		return "C06/untyped-dispatch-input-introduces-diagnostic", fmt.Sprintf("%s appears only after %s\n--- base: %v\n%s\n--- loosened\n%s", d, c.What, diagStrings(d0), c.Base, c.Loose)
	}
	return "", ""
}
