package checks

import (
	"encoding/json"
	"fmt"
	"regexp"
	"sort"
	"strings"
	"testing"

	al "github.com/rhysd/actionlint"
	"pgregory.net/rapid"
	eg "verifharness/exprgen"
	"verifharness/hx"
)

// ---- C11: script-injection detection is complete and precise ---------------------------------------

// documented untrusted inputs (docs/checks.md "Script injection by potentially untrusted inputs" and
// GitHub's security hardening guide); "*" = array element
var c11Untrusted = []string{
	"github.event.issue.title", "github.event.issue.body",
	"github.event.pull_request.title", "github.event.pull_request.body",
	"github.event.pull_request.head.ref", "github.event.pull_request.head.label",
	"github.event.pull_request.head.repo.default_branch",
	"github.event.comment.body", "github.event.review.body", "github.event.review_comment.body",
	"github.event.pages.*.page_name",
	"github.event.commits.*.message", "github.event.commits.*.author.email", "github.event.commits.*.author.name",
	"github.event.head_commit.message", "github.event.head_commit.author.email", "github.event.head_commit.author.name",
	"github.event.discussion.title", "github.event.discussion.body",
	"github.head_ref",
}

type c11op struct {
	kind string // prop star idx
	name string
}

type c11hit struct {
	Off   int      `json:"off"` // offset of the chain's root variable
	Paths []string `json:"paths"`
}

func c11match(ops []c11op) []string {
	var out []string
	for _, u := range c11Untrusted {
		p := strings.Split(u, ".")
		i := 1
		pendingFilterIdx := false
		ok := true
		for _, op := range ops {
			switch op.kind {
			case "prop":
				if i < len(p) && p[i] == op.name {
					i++
				} else {
					ok = false
				}
			case "star":
				if i < len(p) {
					i++
					pendingFilterIdx = true
				} else {
					ok = false
				}
			case "idx":
				if pendingFilterIdx {
					pendingFilterIdx = false // selects an element of the filtered array
				} else if i < len(p) && p[i] == "*" {
					i++
				} else {
					ok = false
				}
			}
			if !ok {
				break
			}
		}
		if ok && i == len(p) {
			out = append(out, u)
		}
	}
	sort.Strings(out)
	return out
}

// c11model walks the reference tree top-down and collects the expected reports.
func c11model(n *eg.Node, safe bool, out *[]c11hit) {
	switch n.Kind {
	case "call":
		s := safe
		switch strings.ToLower(n.Val) {
		case "contains", "startswith", "endswith":
			s = true
		}
		for _, k := range n.Kids {
			c11model(k, s, out)
		}
	case "prop", "star", "idx", "var":
		var ops []c11op
		cur := n
	down:
		for {
			switch cur.Kind {
			case "prop":
				ops = append(ops, c11op{"prop", cur.Val})
				cur = cur.Kids[0]
			case "star":
				ops = append(ops, c11op{"star", ""})
				cur = cur.Kids[0]
			case "idx":
				if ix := cur.Kids[1]; ix.Kind == "str" {
					ops = append(ops, c11op{"prop", strings.ToLower(ix.Val)})
				} else {
					ops = append(ops, c11op{"idx", ""})
					c11model(ix, safe, out)
				}
				cur = cur.Kids[0]
			default:
				break down
			}
		}
		if cur.Kind != "var" {
			c11model(cur, safe, out)
			return
		}
		if safe || cur.Val != "github" {
			return
		}
		for i, j := 0, len(ops)-1; i < j; i, j = i+1, j-1 {
			ops[i], ops[j] = ops[j], ops[i]
		}
		if ps := c11match(ops); len(ps) > 0 {
			*out = append(*out, c11hit{cur.Off, ps})
		}
	default:
		for _, k := range n.Kids {
			c11model(k, safe, out)
		}
	}
}

var (
	reUntrustedOne  = regexp.MustCompile(`^"([^"]+)" is potentially untrusted`)
	reUntrustedMany = regexp.MustCompile(`object filter extracts potentially untrusted properties (.+?)\. avoid`)
)

func parseUntrustedMsg(msg string) ([]string, bool) {
	if m := reUntrustedOne.FindStringSubmatch(msg); m != nil {
		return []string{m[1]}, true
	}
	if m := reUntrustedMany.FindStringSubmatch(msg); m != nil {
		var ps []string
		for _, q := range strings.Split(m[1], ", ") {
			ps = append(ps, strings.Trim(q, `"`))
		}
		sort.Strings(ps)
		return ps, true
	}
	return nil, false
}

func hitsString(hs []c11hit) string {
	var ss []string
	for _, h := range hs {
		ss = append(ss, fmt.Sprintf("@%d:%s", h.Off, strings.Join(h.Paths, "+")))
	}
	sort.Strings(ss)
	return strings.Join(ss, " | ")
}

type c11Case struct {
	Src string `json:"src"`
}

func upperLiteralIndex(n *eg.Node) bool {
	if n.Kind == "idx" && n.Kids[1].Kind == "str" && n.Kids[1].Val != strings.ToLower(n.Kids[1].Val) {
		return true
	}
	for _, k := range n.Kids {
		if upperLiteralIndex(k) {
			return true
		}
	}
	return false
}

func checkTaintSema(c *c11Case) (key, msg string, want []c11hit) {
	src := c.Src + "}}"
	ref, ok := eg.Parse(src)
	if !ok {
		return "harness/c11-unparsable", fmt.Sprintf("reference rejects %q", c.Src), nil
	}
	c11model(ref, false, &want)
	var errs []*al.ExprError
	var pan any
	func() {
		defer func() { pan = recover() }()
		e, perr := al.NewExprParser().Parse(al.NewExprLexer(src))
		if perr != nil {
			panic(fmt.Sprintf("actionlint rejects %q: %v", c.Src, perr))
		}
		ch := al.NewExprSemanticsChecker(true, nil)
		ch.SetContextAvailability([]string{"github", "env", "matrix", "steps", "needs", "inputs", "secrets", "vars", "job", "runner", "strategy"})
		ch.SetSpecialFunctionAvailability([]string{"hashfiles", "always", "success", "failure", "cancelled"})
		ch.UpdateMatrix(al.NewEmptyObjectType())
		_, errs = ch.Check(e)
	}()
	if pan != nil {
		return "C11/panic", fmt.Sprintf("%v", pan), want
	}
	var got []c11hit
	for _, e := range errs {
		if ps, ok := parseUntrustedMsg(e.Message); ok {
			got = append(got, c11hit{e.Offset, ps})
		}
	}
	if hitsString(got) != hitsString(want) {
		key := "C11/extra-report"
		if len(got) < len(want) {
			key = "C11/missed-untrusted-input"
		} else if len(got) == len(want) {
			key = "C11/wrong-paths-or-position"
		}
		if len(got) < len(want) && upperLiteralIndex(ref) {
			// maybe only because of letter case in ['Name'] literal indexes: test the lower-cased text
			lower := reLitIdx.ReplaceAllStringFunc(c.Src, strings.ToLower)
			if lower != c.Src {
				if k2, _, _ := checkTaintSema(&c11Case{lower}); k2 == "" {
					key = "C11/literal-index-not-case-folded"
				}
			}
		}
		return key, fmt.Sprintf("%q\n expected reports %s\n actual reports   %s", c.Src, hitsString(want), hitsString(got)), want
	}
	return "", "", want
}

var reLitIdx = regexp.MustCompile(`\['[^']*'\]`)

// ---- through the linter ------------------------------------------------------------------------------

type c11wfCase struct {
	Src string `json:"src"`
	Pos string `json:"pos"` // run | github-script | env | with-other | name | run-two
}

func checkTaintLinter(c *c11wfCase) (key, msg string) {
	ref, ok := eg.Parse(c.Src + "}}")
	if !ok {
		return "harness/c11-unparsable", c.Src
	}
	var want []c11hit
	c11model(ref, false, &want)
	ph := "${{ " + c.Src + " }}"
	var y string
	var line, col int // position of the first character of Src
	head := "on: push\njobs:\n  a:\n    runs-on: ubuntu-latest\n    steps:\n"
	script := true
	switch c.Pos {
	case "run":
		y = head + "      - run: echo " + ph + "\n"
		line, col = 6, 14+5+4
	case "run-block":
		y = head + "      - run: |\n          echo hello\n          echo " + ph + " done\n"
		line, col = 8, 11+5+4
	case "github-script", "github-script-key-Script", "github-script-key-SCRIPT":
		// input names are case-insensitive
		k := "script"
		if i := strings.LastIndex(c.Pos, "-key-"); i >= 0 {
			k = c.Pos[i+5:]
		}
		y = head + "      - uses: actions/github-script@v7\n        with:\n          " + k + ": console.log(" + ph + ")\n"
		line, col = 8, 19+12+4
	case "github-script-with-first", "github-script-with-between":
		// the order of the keys of a step has no meaning
		if c.Pos == "github-script-with-first" {
			y = head + "      - with:\n          script: console.log(" + ph + ")\n        uses: actions/github-script@v7\n"
			line, col = 7, 19+12+4
		} else {
			y = head + "      - name: x\n        with:\n          result-encoding: string\n          script: console.log(" + ph + ")\n        id: gs\n        uses: actions/github-script@v7\n        if: true\n"
			line, col = 9, 19+12+4
		}
	case "env":
		y = head + "      - run: echo\n        env:\n          V: " + ph + "\n"
		script = false
	case "env-quoted":
		y = head + "      - run: echo\n        env:\n          V: \"" + ph + "\"\n"
		script = false
	case "with-other-quoted":
		y = head + "      - uses: actions/checkout@v4\n        with:\n          ref: \"x " + ph + "\"\n"
		script = false
	case "name-quoted":
		y = head + "      - run: echo\n        name: \"" + ph + "\"\n"
		script = false
	case "run-quoted":
		y = head + "      - run: \"echo " + ph + "\"\n"
		line, col = 6, 14+1+5+4
	case "with-other":
		y = head + "      - uses: actions/checkout@v4\n        with:\n          ref: " + ph + "\n"
		script = false
	case "with-other-script-key":
		y = head + "      - uses: owner/unknown@v1\n        with:\n          script: " + ph + "\n"
		script = false
	case "name":
		y = head + "      - run: echo\n        name: " + ph + "\n"
		script = false
	case "if":
		y = head + "      - run: echo\n        if: " + ph + "\n"
		script = false
	default:
		return "harness/c11-bad-pos", c.Pos
	}
	ds, err, pan, st := lintSafe([]byte(y))
	if pan != nil {
		return "C11/panic", fmt.Sprintf("panic %v at %s\n%s", pan, st, y)
	}
	if err != nil {
		return "C11/linter-fatal", fmt.Sprintf("%v\n%s", err, y)
	}
	exact := c.Pos != "run-block" // positions inside block scalars are outside the position claim (C07)
	var got []string
	for _, d := range ds {
		if ps, ok := parseUntrustedMsg(d.Msg); ok {
			if exact {
				got = append(got, fmt.Sprintf("%d:%d:%s", d.Line, d.Col, strings.Join(ps, "+")))
			} else {
				got = append(got, strings.Join(ps, "+"))
			}
		}
	}
	sort.Strings(got)
	var exp []string
	if script {
		for _, h := range want {
			if exact {
				exp = append(exp, fmt.Sprintf("%d:%d:%s", line, col+h.Off, strings.Join(h.Paths, "+")))
			} else {
				exp = append(exp, strings.Join(h.Paths, "+"))
			}
		}
	}
	sort.Strings(exp)
	if strings.Join(got, " | ") != strings.Join(exp, " | ") {
		key := "C11/linter-" + c.Pos + "-reports-differ"
		if !script {
			key = "C11/reported-outside-script-position"
		} else if len(got) < len(exp) && upperLiteralIndex(ref) {
			key = "C11/literal-index-not-case-folded"
		}
		return key, fmt.Sprintf("position %s: expected %v, got %v\n%s\nall: %v", c.Pos, exp, got, y, diagStrings(ds))
	}
	return "", ""
}

func init() {
	hx.RegisterReplayer("C11/sema", func(r *hx.Run, data json.RawMessage) {
		var c c11Case
		if err := json.Unmarshal(data, &c); err != nil {
			panic(err)
		}
		if k, m, _ := checkTaintSema(&c); k != "" {
			r.Report(k, m, "C11/sema", &c)
		}
	})
	hx.RegisterReplayer("C11/linter", func(r *hx.Run, data json.RawMessage) {
		var c c11wfCase
		if err := json.Unmarshal(data, &c); err != nil {
			panic(err)
		}
		if k, m := checkTaintLinter(&c); k != "" {
			r.Report(k, m, "C11/linter", &c)
		}
	})
}

// ---- generator --------------------------------------------------------------------------------------

type c11gen struct {
	t      *rapid.T
	nchain int
	labels map[string]bool
}

func (g *c11gen) cs(x string) string {
	switch rapid.IntRange(0, 3).Draw(g.t, "case") {
	case 0:
		g.labels["case=upper"] = true
		return strings.ToUpper(x)
	case 1:
		g.labels["case=title"] = true
		return strings.ToUpper(x[:1]) + x[1:]
	}
	return x
}

// path draws a documented path or a trusted relative of one.
func (g *c11gen) path() (segs []string, class string) {
	t := g.t
	u := strings.Split(rapid.SampledFrom(c11Untrusted).Draw(t, "up"), ".")
	switch rapid.IntRange(0, 9).Draw(t, "rel") {
	case 0: // sibling
		s := append([]string(nil), u...)
		s[len(s)-1] = rapid.SampledFrom([]string{"number", "id", "sha", "url", "titles"}).Draw(t, "sib")
		return s, "trusted-sibling"
	case 1: // proper prefix
		return u[:rapid.IntRange(1, len(u)-1).Draw(t, "pre")], "trusted-prefix"
	case 2: // extension
		return append(append([]string(nil), u...), rapid.SampledFrom([]string{"foo", "length", "*"}).Draw(t, "ext")), "trusted-extension"
	case 3: // other context
		s := append([]string(nil), u...)
		s[0] = rapid.SampledFrom([]string{"env", "matrix", "steps", "needs", "inputs"}).Draw(t, "octx")
		return s, "other-context"
	}
	return u, "untrusted"
}

func (g *c11gen) chain(depth int) string {
	t := g.t
	segs, class := g.path()
	g.nchain++
	g.labels["path="+class] = true
	var b strings.Builder
	filtered := false
	// optionally replace 1-2 object segments by the object filter
	wild := map[int]bool{}
	if rapid.IntRange(0, 5).Draw(t, "wild") == 0 && len(segs) > 2 {
		nw := rapid.IntRange(1, 2).Draw(t, "nw")
		for i := 0; i < nw; i++ {
			wild[rapid.IntRange(1, len(segs)-1).Draw(t, "wj")] = true
		}
	}
	for i, s := range segs {
		if i == 0 {
			b.WriteString(g.cs(s))
			continue
		}
		if s == "*" {
			switch rapid.IntRange(0, 3).Draw(t, "arr") {
			case 0:
				if filtered {
					b.WriteString(".*")
				} else {
					b.WriteString("[0]")
					g.labels["array=index"] = true
				}
			case 1:
				b.WriteString(".*")
				filtered = true
				g.labels["array=filter"] = true
			case 2:
				if filtered || depth <= 0 {
					b.WriteString(".*")
					filtered = true
				} else {
					b.WriteString("[" + g.expr(depth-1) + "]")
					g.labels["array=index-expression"] = true
				}
			default:
				if filtered {
					b.WriteString(".*")
				} else {
					b.WriteString("[matrix.i]")
					g.labels["array=index-expression"] = true
				}
			}
			continue
		}
		if wild[i] {
			b.WriteString(".*")
			filtered = true
			g.labels["object-filter"] = true
			continue
		}
		switch rapid.IntRange(0, 3).Draw(t, "sp") {
		case 0:
			b.WriteString("['" + g.cs(s) + "']")
			g.labels["spelling=literal-index"] = true
		default:
			b.WriteString("." + g.cs(s))
		}
	}
	if filtered && rapid.IntRange(0, 3).Draw(t, "tailidx") == 0 {
		b.WriteString("[0]")
		g.labels["index-after-filter"] = true
	}
	return b.String()
}

func (g *c11gen) expr(depth int) string {
	t := g.t
	k := rapid.IntRange(0, 13).Draw(t, "k")
	if depth <= 0 {
		k = k % 3
	}
	switch k {
	case 12, 13:
		// nested logical operators (the checker narrows types through && / || / !)
		g.labels["embed=nested-logical"] = true
		op1 := rapid.SampledFrom([]string{"&&", "||"}).Draw(t, "op1")
		op2 := rapid.SampledFrom([]string{"&&", "||"}).Draw(t, "op2")
		inner := "(" + g.expr(depth-1) + " " + op1 + " " + g.expr(depth-1) + ")"
		for i := rapid.IntRange(0, 2).Draw(t, "nots"); i > 0; i-- {
			inner = "!" + inner
		}
		if rapid.Bool().Draw(t, "left") {
			return inner + " " + op2 + " " + g.expr(depth-1)
		}
		return g.expr(depth-1) + " " + op2 + " " + inner
	case 0, 1, 10:
		return g.chain(depth)
	case 2:
		return rapid.SampledFrom([]string{"'x'", "1", "true", "null", "env.FOO", "github.sha"}).Draw(t, "lit")
	case 3:
		g.labels["embed=parens"] = true
		return "(" + g.expr(depth-1) + ")"
	case 4:
		g.labels["embed=not"] = true
		return "!" + g.expr(depth-1)
	case 5:
		g.labels["embed=binary"] = true
		op := rapid.SampledFrom([]string{"==", "!=", "&&", "||", "<"}).Draw(t, "op")
		return g.expr(depth-1) + " " + op + " " + g.expr(depth-1)
	case 6:
		g.labels["embed=non-sanitising-call"] = true
		f := rapid.SampledFrom([]string{"format('{0}', %s)", "toJSON(%s)", "fromJSON(%s)", "join(%s)", "hashFiles(%s)", "format('{0}{1}', 'a', %s)"}).Draw(t, "f")
		return fmt.Sprintf(f, g.expr(depth-1))
	case 7:
		g.labels["embed=sanitising-call"] = true
		f := rapid.SampledFrom([]string{"contains(%s, %s)", "startsWith(%s, %s)", "endsWith(%s, %s)", "CONTAINS(%s, %s)"}).Draw(t, "sf")
		return fmt.Sprintf(f, g.expr(depth-1), g.expr(depth-1))
	case 8:
		g.labels["embed=index-position"] = true
		return "matrix.foo[" + g.expr(depth-1) + "]"
	case 9:
		g.labels["embed=operand-of-chain"] = true
		return "fromJSON(" + g.expr(depth-1) + ").foo"
	default:
		g.labels["embed=two-args"] = true
		return "format('{0} {1}', " + g.expr(depth-1) + ", " + g.expr(depth-1) + ")"
	}
}

func TestC11(t *testing.T) {
	hx.Main(t, "C11", func(r *hx.Run) {
		r.Rule = "expressions built from the documented untrusted paths and their trusted relatives (sibling, proper prefix, extension, other context), every segment spelled as .name / ['name'] in any letter case, array segments as [0] / [expr] / .*, object segments optionally as .* filter, embedded in operators (incl. nested and negated && / || groups on either side), parentheses, non-sanitising and sanitising calls, index positions and operands of other chains, 1-4 chains per expression; script positions (run, run block, github-script script with the input name in any letter case, `with:` written before or after `uses:`) and non-script positions (env, with of other actions, name, if; plain and double-quoted scalars). Oracle: stateless top-down taint model over the reference AST; reported paths and columns must equal the model's. Non-trivial = the model expects >= 1 report and the expression has >= 2 chains or a non-dot spelling or an embedding; distinct = expression text (+ position)."
		r.Assumptions = []string{"path list transcribed from docs/checks.md plus github.event.discussion.{title,body} (GitHub security hardening guide)", "object filter .* is a wildcard for exactly one segment; the first index after a filter is path-neutral", "whole-object reads (proper prefixes) are not reports"}
		covered := map[string]bool{}
		r.Check(t, "sema", hx.N(30000, 600000), func(rt *rapid.T) {
			g := &c11gen{t: rt, labels: map[string]bool{}}
			src := g.expr(rapid.IntRange(0, 4).Draw(rt, "depth"))
			c := &c11Case{Src: src}
			k, m, want := checkTaintSema(c)
			r.Eval()
			if len(want) > 0 && (g.nchain >= 2 || len(g.labels) > 1) {
				r.NT(src)
			}
			for _, h := range want {
				for _, p := range h.Paths {
					covered[p] = true
				}
			}
			for l := range g.labels {
				r.Class(l)
			}
			if len(want) > 0 {
				r.Class(fmt.Sprintf("expected-reports=%d", min(len(want), 3)))
			} else {
				r.Class("expected-reports=0")
			}
			r.Sample(map[string]any{"expr": src, "expected": hitsString(want)})
			if k != "" {
				r.Fail(rt, k, m, "C11/sema", c)
			}
		})
		var cov []string
		for p := range covered {
			cov = append(cov, p)
		}
		sort.Strings(cov)
		r.Extra["documented_paths_expected_at_least_once"] = cov
		r.Check(t, "linter", hx.N(4000, 60000), func(rt *rapid.T) {
			g := &c11gen{t: rt, labels: map[string]bool{}}
			src := g.expr(rapid.IntRange(0, 3).Draw(rt, "depth"))
			pos := rapid.SampledFrom([]string{"run", "run", "run-block", "github-script", "github-script-key-Script", "github-script-key-SCRIPT", "github-script-with-first", "github-script-with-between", "env", "with-other", "with-other-script-key", "name", "if", "env-quoted", "with-other-quoted", "name-quoted", "run-quoted"}).Draw(rt, "pos")
			c := &c11wfCase{Src: src, Pos: pos}
			r.Eval()
			var want []c11hit
			if ref, ok := eg.Parse(src + "}}"); ok {
				c11model(ref, false, &want)
			}
			if len(want) > 0 {
				r.NT(src, pos)
			}
			r.Class("linter-position=" + pos)
			if k, m := checkTaintLinter(c); k != "" {
				r.Fail(rt, k, m, "C11/linter", c)
			}
		})
	})
}
