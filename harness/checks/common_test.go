package checks

import (
	"fmt"
	"io"
	"sort"
	"strings"

	al "github.com/rhysd/actionlint"
)

// Diag is a plain copy of an actionlint diagnostic.
type Diag struct {
	Line int    `json:"line"`
	Col  int    `json:"col"`
	Kind string `json:"kind"`
	Msg  string `json:"msg"`
	File string `json:"file,omitempty"`
}

func (d Diag) String() string { return fmt.Sprintf("%d:%d [%s] %s", d.Line, d.Col, d.Kind, d.Msg) }

func toDiags(errs []*al.Error) []Diag {
	ds := make([]Diag, 0, len(errs))
	for _, e := range errs {
		ds = append(ds, Diag{e.Line, e.Column, e.Kind, e.Message, e.Filepath})
	}
	return ds
}

func diagStrings(ds []Diag) []string {
	ss := make([]string, len(ds))
	for i, d := range ds {
		ss[i] = d.String()
	}
	return ss
}

func sortedDiagStrings(ds []Diag) []string {
	ss := diagStrings(ds)
	sort.Strings(ss)
	return ss
}

// newLinter builds a fresh linter with external tools disabled (default options never look them up
// unless configured; we pass empty strings explicitly).
func newLinter(opts *al.LinterOptions) *al.Linter {
	if opts == nil {
		opts = &al.LinterOptions{}
	}
	l, err := al.NewLinter(io.Discard, opts)
	if err != nil {
		panic(err)
	}
	return l
}

// lint lints src as an anonymous file outside any project.
func lint(src string) ([]Diag, error) {
	l := newLinter(nil)
	errs, err := l.Lint("<stdin>", []byte(src), nil)
	return toDiags(errs), err
}

// lintSafe converts a Go panic into a value.
func lintSafe(src []byte) (ds []Diag, err error, panicked any, stack string) {
	defer func() {
		if p := recover(); p != nil {
			panicked = p
			stack = stackTop()
		}
	}()
	l := newLinter(nil)
	errs, e := l.Lint("<stdin>", src, nil)
	return toDiags(errs), e, nil, ""
}

func stackTop() string {
	buf := make([]byte, 16<<10)
	n := runtimeStack(buf)
	lines := strings.Split(string(buf[:n]), "\n")
	var out []string
	for i, ln := range lines {
		if strings.Contains(ln, "/repo/") && !strings.Contains(ln, "_test.go") {
			if i > 0 {
				out = append(out, strings.TrimSpace(lines[i-1]))
			}
			out = append(out, strings.TrimSpace(ln))
			if len(out) >= 6 {
				break
			}
		}
	}
	return strings.Join(out, " | ")
}

func countLines(src string) int {
	// line breaks as YAML counts them: LF, CR, CRLF and the Unicode breaks NEL, LS, PS
	n := 0
	rs := []rune(src)
	for i := 0; i < len(rs); i++ {
		switch rs[i] {
		case '\r':
			if i+1 < len(rs) && rs[i+1] == '\n' {
				i++
			}
			n++
		case '\n', '\u0085', '\u2028', '\u2029':
			n++
		}
	}
	if len(rs) == 0 {
		return 1 // an empty file is reported at 1:1
	}
	if len(rs) > 0 {
		switch rs[len(rs)-1] {
		case '\n', '\r', '\u0085', '\u2028', '\u2029':
		default:
			n++
		}
	}
	return n
}
