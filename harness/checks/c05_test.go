package checks

import (
	"encoding/json"
	"fmt"
	"regexp"
	"sort"
	"strings"
	"testing"

	"pgregory.net/rapid"
	"verifharness/hx"
)

// ---- C05: references to steps/needs/matrix/inputs/secrets/jobs resolve by scope ----------------------

type c05Probe struct {
	Line    int    `json:"line"`
	Expr    string `json:"expr"`
	Kind    string `json:"kind"`    // e.g. steps/earlier, steps/own, needs/direct ...
	Defined bool   `json:"defined"` // verdict of the scope model
	Name    string `json:"name"`    // the name whose definedness is asserted (lower-case)
}

type c05Case struct {
	YAML   string     `json:"yaml"`
	Probes []c05Probe `json:"probes"`
}

var reUndefProp = regexp.MustCompile(`^property "([^"]+)" is not defined in object type`)

func checkScopes(c *c05Case) (key, msg string) {
	ds, err, pan, st := lintSafe([]byte(c.YAML))
	if pan != nil {
		return "C05/panic", fmt.Sprintf("panic %v at %s\n%s", pan, st, c.YAML)
	}
	if err != nil {
		return "C05/linter-fatal", fmt.Sprintf("%v\n%s", err, c.YAML)
	}
	byLine := map[int][]Diag{}
	for _, d := range ds {
		byLine[d.Line] = append(byLine[d.Line], d)
	}
	for _, p := range c.Probes {
		reported := false
		other := ""
		for _, d := range byLine[p.Line] {
			if m := reUndefProp.FindStringSubmatch(d.Msg); m != nil && strings.EqualFold(m[1], p.Name) {
				reported = true
			} else if d.Kind == "expression" {
				other = d.Msg
			}
		}
		if p.Defined && reported {
			k := "C05/in-scope-reference-reported:" + p.Kind
			if strings.Contains(p.Expr, "['") && p.Expr != strings.ToLower(p.Expr) {
				k = "C05/in-scope-reference-reported(upper-case literal index)"
			}
			return k, fmt.Sprintf("line %d: %s is in scope (%s) but reported undefined: %v\n%s", p.Line, p.Expr, p.Kind, diagStrings(byLine[p.Line]), c.YAML)
		}
		if !p.Defined && !reported {
			k := "C05/out-of-scope-reference-not-reported:" + p.Kind
			if strings.Contains(p.Expr, "['") && p.Expr != strings.ToLower(p.Expr) {
				k = "C05/out-of-scope-reference-not-reported(upper-case literal index):" + p.Kind
			}
			return k, fmt.Sprintf("line %d: %s is NOT in scope (%s) but not reported as undefined; diagnostics on that line: %v\n%s", p.Line, p.Expr, p.Kind, diagStrings(byLine[p.Line]), c.YAML)
		}
		if p.Defined && other != "" && strings.Contains(other, "not allowed here") {
			return "harness/c05-probe-at-unavailable-position", fmt.Sprintf("line %d: %s: %s\n%s", p.Line, p.Expr, other, c.YAML)
		}
	}
	return "", ""
}

func init() {
	hx.RegisterReplayer("C05/scopes", func(r *hx.Run, data json.RawMessage) {
		var c c05Case
		if err := json.Unmarshal(data, &c); err != nil {
			panic(err)
		}
		if k, m := checkScopes(&c); k != "" {
			r.Report(k, m, "C05/scopes", &c)
		}
	})
}

type ybuf struct {
	b    strings.Builder
	line int
}

func (y *ybuf) ln(format string, args ...any) int {
	y.line++
	fmt.Fprintf(&y.b, format, args...)
	y.b.WriteByte('\n')
	return y.line
}

type c05gen struct {
	t      *rapid.T
	probes []c05Probe
	y      *ybuf
}

func (g *c05gen) b(l string) bool          { return rapid.Bool().Draw(g.t, l) }
func (g *c05gen) i(l string, a, b int) int { return rapid.IntRange(a, b).Draw(g.t, l) }
func (g *c05gen) spell(s string) string {
	switch g.i("case", 0, 3) {
	case 0:
		return strings.ToUpper(s)
	case 1:
		return strings.ToUpper(s[:1]) + s[1:]
	}
	return s
}

// ref renders ctx.name[.rest] in dot or index form with random case
func (g *c05gen) ref(ctx, name, rest string) string {
	if g.i("form", 0, 3) == 0 {
		return g.spell(ctx) + "['" + g.spell(name) + "']" + rest
	}
	return g.spell(ctx) + "." + g.spell(name) + rest
}

func (g *c05gen) probe(line int, expr, kind, name string, defined bool) {
	g.probes = append(g.probes, c05Probe{line, expr, kind, defined, strings.ToLower(name)})
}

// embed wraps a reference into a larger expression; the verdict about the reference must not
// depend on where inside the expression it occurs.
func (g *c05gen) embed(ref string) string {
	switch g.i("embed", 0, 13) {
	case 0:
		return ref + " == 'x'"
	case 1:
		return "format('{0}', " + ref + ")"
	case 2:
		return ref + " && 'x' || 'y'"
	case 3:
		return "(" + ref + " || 'x') && 'y'"
	case 4:
		return "!(" + ref + " && true) && 'y'"
	case 5:
		return "true && (false || " + ref + ")"
	case 6:
		return "fromJSON('[1]')[" + ref + "]"
	case 7:
		return "!" + ref
	case 8:
		return "toJSON(" + ref + ") != ''"
	case 9:
		return "'y' == " + ref + " || contains('abc', " + ref + ")"
	}
	return ref
}

type c05job struct {
	id      string
	needs   []int
	outputs []string
	isCall  bool     // calls a remote reusable workflow: outputs unknown
	stepIDs []string // per step, "" = no id
	mkeys   []string // literal matrix keys (rows + include)
	mopen   bool     // some part of the matrix is expression-defined: any key allowed
	hasCfg  bool     // row cfg with mapping values {a: ...}
	cfgOpen bool     // one of the values of cfg (in the row or in an include element) is given by an expression
	hasMat  bool
	matrixY []string // yaml lines of the strategy section (indented by 4)
}

func TestC05(t *testing.T) {
	hx.Main(t, "C05", func(r *hx.Run) {
		r.Rule = "workflow shapes: 1-5 jobs with a random needs DAG (scalar/list form, mixed case; jobs written in random order, so needed jobs may come later in the file), per job 0-5 steps with ids placed at random (ids may coincide up to case across jobs), declared job outputs, a matrix (rows, include-only keys, exclude, or a row / include / whole matrix given by an expression), workflow_call and/or workflow_dispatch inputs, workflow_call secrets (declared / section absent) and outputs. One reference probe per line at positions where the context is available: steps.<id>[.outputs.x|.outcome|.conclusion] in run/env/if/with/name/working-directory of steps (run, shell and working-directory in any key order), in job outputs and environment.url; needs.<job>[.result|.outputs.<n>] (also inside nested sequences of matrix rows, after elements of mixed / unknown type); matrix.<key> and matrix.<key>.<property> for a row of mappings (all values literal / one value or an include assignment given by an expression); inputs.<n>; secrets.<n>; jobs.<job>.outputs.<n>; defined and undefined names, dot and ['x'] form, random case. Oracle: scope model built with the shape. Non-trivial = shape with >= 2 jobs or >= 2 steps and at least one defined and one undefined probe; distinct = YAML text."
		r.Assumptions = []string{"probes are only placed where GitHub's availability table allows the context", "nested matrix value typing and jobs.<id>.result are not asserted", "inputs probes only when at least one input is declared"}
		r.Check(t, "shapes", hx.N(2500, 60000), func(rt *rapid.T) {
			c, nj, maxSteps := genC05Shape(rt, nil)
			g := &c05gen{probes: c.Probes}
			r.Eval()
			nd, nu := 0, 0
			for _, p := range g.probes {
				if p.Defined {
					nd++
				} else {
					nu++
				}
				r.Class(p.Kind + map[bool]string{true: "/defined", false: "/undefined"}[p.Defined])
			}
			if (nj >= 2 || maxSteps >= 2) && nd > 0 && nu > 0 {
				r.NT(c.YAML)
			}
			r.Sample(map[string]any{"yaml": c.YAML, "probes": c.Probes})
			if k, m := checkScopes(c); k != "" {
				r.Fail(rt, k, m, "C05/scopes", c)
			}
		})
	})
}

// genC05Shape draws a workflow shape with reference probes and the scope model's verdicts.
func genC05Shape(rt *rapid.T, extra func(g *c05gen)) (*c05Case, int, int) {
	g := &c05gen{t: rt, y: &ybuf{}}
	y := g.y
	// ----- header
	hasCall := g.b("call")
	hasDispatch := g.b("dispatch")
	var inputs, secrets, wfOutputs []string
	secretsDeclared := false
	y.ln("on:")
	if !hasCall && !hasDispatch {
		y.ln("  push:")
	}
	if hasDispatch {
		y.ln("  workflow_dispatch:")
		if g.b("dinputs") {
			y.ln("    inputs:")
			for k := 0; k < g.i("ndin", 1, 2); k++ {
				n := fmt.Sprintf("din%d", k)
				inputs = append(inputs, n)
				y.ln("      %s:", g.spell(n))
				y.ln("        type: string")
			}
		}
	}
	type pendingOut struct{ name string }
	var outLines []func(jobs []*c05job)
	if hasCall {
		y.ln("  workflow_call:")
		if g.b("cinputs") {
			y.ln("    inputs:")
			for k := 0; k < g.i("ncin", 1, 2); k++ {
				n := fmt.Sprintf("cin%d", k)
				inputs = append(inputs, n)
				y.ln("      %s:", g.spell(n))
				y.ln("        type: %s", rapid.SampledFrom([]string{"string", "number", "boolean"}).Draw(rt, "cty"))
			}
		}
		if g.b("csecrets") {
			secretsDeclared = true
			y.ln("    secrets:")
			for k := 0; k < g.i("ncs", 1, 2); k++ {
				n := fmt.Sprintf("tok%d", k)
				secrets = append(secrets, n)
				y.ln("      %s:", g.spell(n))
				y.ln("        required: false")
			}
		}
	}
	// ----- jobs (decide shapes first; workflow_call outputs need them)
	nj := g.i("njobs", 1, 5)
	jobs := make([]*c05job, nj)
	for i := range jobs {
		j := &c05job{id: fmt.Sprintf("job%d", i)}
		for k := 0; k < i; k++ {
			if g.i("need", 0, 2) == 0 {
				j.needs = append(j.needs, k)
			}
		}
		j.isCall = g.i("iscall", 0, 5) == 0
		if !j.isCall {
			for k := 0; k < g.i("nout", 0, 2); k++ {
				j.outputs = append(j.outputs, fmt.Sprintf("out%d", k))
			}
			ns := g.i("nsteps", 0, 5)
			for k := 0; k < ns; k++ {
				id := ""
				if g.i("hasid", 0, 2) > 0 {
					id = fmt.Sprintf("s%d", k) // same ids in every job: equal across jobs
					if g.b("jobsuffix") {
						id = fmt.Sprintf("s%dj%d", k, i)
					}
				}
				j.stepIDs = append(j.stepIDs, id)
			}
		}
		// matrix
		if g.i("hasmatrix", 0, 2) > 0 {
			j.hasMat = true
			switch g.i("mform", 0, 6) {
			case 0:
				j.mopen = true
				j.matrixY = []string{"matrix: ${{ fromJSON(github.event.client_payload.m) }}"}
			default:
				j.matrixY = []string{"matrix:"}
				j.mkeys = append(j.mkeys, "os")
				j.matrixY = append(j.matrixY, "  "+g.spell("os")+": [linux, mac]")
				if g.b("row2") {
					j.mkeys = append(j.mkeys, "ver")
					if g.i("rowexpr", 0, 3) == 0 {
						j.matrixY = append(j.matrixY, "  ver: ${{ fromJSON(github.event.client_payload.v) }}")
					} else {
						j.matrixY = append(j.matrixY, "  ver: [1, 2]")
					}
				}
				if g.b("row3") {
					j.mkeys = append(j.mkeys, "cfg")
					j.hasCfg = true
					switch g.i("cfgform", 0, 4) {
					case 0: // a value of unknown shape after values of known shape
						j.cfgOpen = true
						j.matrixY = append(j.matrixY, "  cfg: [{a: 1}, {a: 2}, '${{ fromJSON(github.event.client_payload.c) }}']")
					case 1:
						j.cfgOpen = true
						j.matrixY = append(j.matrixY, "  cfg:", "    - ${{ fromJSON(github.event.client_payload.c) }}", "    - a: 1")
					default:
						j.matrixY = append(j.matrixY, "  cfg: [{a: 1}, {a: 2}]")
					}
				}
				cfgInclude := j.hasCfg && g.i("cfginc", 0, 2) == 0
				incForm := g.i("inc", 0, 6)
				if cfgInclude {
					incForm = 7
				}
				switch incForm {
				case 7: // an include element gives the key of a literal row by an expression
					j.cfgOpen = true
					if g.b("cfgincextra") {
						j.mkeys = append(j.mkeys, "extra")
						j.matrixY = append(j.matrixY, "  include:", "    - os: linux", "      extra: yes", "    - cfg: ${{ fromJSON(github.event.client_payload.c) }}")
					} else {
						j.matrixY = append(j.matrixY, "  include:", "    - cfg: ${{ fromJSON(github.event.client_payload.c) }}", "      os: linux")
					}
				case 5:
					// an element of unknown shape first, then elements whose shape is known
					j.mopen = true
					j.mkeys = append(j.mkeys, "arch", "extra")
					j.matrixY = append(j.matrixY, "  include:", "    - ${{ fromJSON(github.event.client_payload.e) }}", "    - ${{ fromJSON('{\"os\":\"bsd\",\"arch\":\"arm\"}') }}", "    - os: linux", "      extra: yes")
				case 6:
					j.mopen = true
					j.mkeys = append(j.mkeys, "arch")
					j.matrixY = append(j.matrixY, "  include:", "    - ${{ fromJSON('{\"os\":\"bsd\",\"arch\":\"arm\"}') }}", "    - ${{ fromJSON(github.event.client_payload.e) }}")
				case 0:
					j.mkeys = append(j.mkeys, "extra")
					j.matrixY = append(j.matrixY, "  include:", "    - os: linux", "      "+g.spell("extra")+": yes")
				case 1:
					j.mopen = true
					j.matrixY = append(j.matrixY, "  include: ${{ fromJSON(github.event.client_payload.i) }}")
				case 2:
					j.mopen = true
					j.mkeys = append(j.mkeys, "extra")
					j.matrixY = append(j.matrixY, "  include:", "    - os: linux", "      extra: yes", "    - ${{ fromJSON(github.event.client_payload.e) }}")
				}
				if g.b("exc") {
					j.matrixY = append(j.matrixY, "  exclude:", "    - os: mac")
				}
			}
		}
		jobs[i] = j
	}
	// workflow_call outputs with jobs.* probes
	if hasCall && g.b("couts") {
		y.ln("    outputs:")
		for k := 0; k < g.i("ncout", 1, 3); k++ {
			n := fmt.Sprintf("wout%d", k)
			wfOutputs = append(wfOutputs, n)
			y.ln("      %s:", n)
			// pick a job (existing or not) and an output (declared or not)
			ji := g.i("pj", 0, nj)
			var expr, kind, name string
			defined := false
			if ji == nj {
				expr = g.ref("jobs", "nojob", ".outputs.x")
				kind, name = "jobs/unknown-job", "nojob"
			} else {
				j := jobs[ji]
				if len(j.outputs) > 0 && g.b("declout") {
					o := j.outputs[g.i("po", 0, len(j.outputs)-1)]
					expr = "jobs." + g.spell(j.id) + ".outputs." + g.spell(o)
					kind, name, defined = "jobs/declared-output", o, true
				} else if j.isCall {
					expr = "jobs." + g.spell(j.id) + ".outputs.anything"
					kind, name, defined = "jobs/output-of-called-workflow", "anything", true
				} else {
					expr = "jobs." + g.spell(j.id) + ".outputs.nosuch"
					kind, name = "jobs/undeclared-output", "nosuch"
				}
			}
			ln := y.ln("        value: ${{ %s }}", g.embed(expr))
			g.probe(ln, expr, kind, name, defined)
		}
	}
	_ = outLines
	// ----- emit jobs
	autoSecrets := []string{"github_token", "actions_step_debug", "actions_runner_debug"}
	y.ln("jobs:")
	// jobs are written in a random order: a job may need a job defined further down
	emitOrder := rapid.Permutation(func() []int {
		ix := make([]int, len(jobs))
		for k := range ix {
			ix[k] = k
		}
		return ix
	}()).Draw(g.t, "joborder")
	if g.b("documentorder") {
		sort.Ints(emitOrder)
	}
	for _, i := range emitOrder {
		j := jobs[i]
		y.ln("  %s:", g.spell(j.id))
		if len(j.needs) == 1 && g.b("needsscalar") {
			y.ln("    needs: %s", g.spell(jobs[j.needs[0]].id))
		} else if len(j.needs) > 0 {
			var ns []string
			for _, k := range j.needs {
				ns = append(ns, g.spell(jobs[k].id))
			}
			y.ln("    needs: [%s]", strings.Join(ns, ", "))
		}
		if j.hasMat {
			y.ln("    strategy:")
			for li, l := range j.matrixY {
				y.ln("      %s", l)
				if li == 0 && l == "matrix:" && g.b("gridprobes") {
					// references inside a row whose values are sequences, after elements of mixed or
					// unknown type (needs and inputs are available at jobs.<job_id>.strategy)
					y.ln("        zzgrid:")
					y.ln("          - - 1")
					y.ln("            - true")
					if g.b("gridany") {
						y.ln("            - ${{ fromJSON('1') }}")
					}
					for k := 0; k < g.i("ngridprobes", 1, 3); k++ {
						for try := 0; try < 8; try++ {
							expr, kind, name, defined := g.jobLevelProbe(jobs, i, inputs, secrets, secretsDeclared, hasCall, autoSecrets)
							if expr == "" || !(strings.HasPrefix(kind, "needs/") || strings.HasPrefix(kind, "inputs/")) {
								continue
							}
							ln := y.ln("            - ${{ %s }}", g.embed(expr))
							g.probe(ln, expr, kind+"@matrix-nested-sequence", name, defined)
							break
						}
					}
				}
			}
		}
		// job-level probes go to job env (needs, matrix, inputs, secrets available there) or to with: for call jobs
		jobProbes := func(indent, keyPrefix string) {
			np := g.i("njobprobes", 0, 4)
			for k := 0; k < np; k++ {
				expr, kind, name, defined := g.jobLevelProbe(jobs, i, inputs, secrets, secretsDeclared, hasCall, autoSecrets)
				if expr == "" {
					continue
				}
				ln := y.ln("%s%s%d: ${{ %s }}", indent, keyPrefix, k, g.embed(expr))
				g.probe(ln, expr, kind, name, defined)
			}
		}
		if j.isCall {
			y.ln("    uses: owner/repo/.github/workflows/w.yml@v1")
			y.ln("    with:")
			y.ln("      fixed: v")
			jobProbes("      ", "p")
			continue
		}
		y.ln("    runs-on: ubuntu-latest")
		y.ln("    env:")
		y.ln("      FIXED: v")
		jobProbes("      ", "P")
		// outputs + environment: see all steps
		allIDs := []string{}
		for _, id := range j.stepIDs {
			if id != "" {
				allIDs = append(allIDs, id)
			}
		}
		if len(j.outputs) > 0 {
			y.ln("    outputs:")
			for _, o := range j.outputs {
				expr, kind, name, defined := g.stepsProbe(allIDs, nil, "", "job-outputs")
				ln := y.ln("      %s: ${{ %s }}", g.spell(o), g.embed(expr))
				g.probe(ln, expr, kind, name, defined)
			}
		}
		if g.b("environment") {
			y.ln("    environment:")
			y.ln("      name: prod")
			expr, kind, name, defined := g.stepsProbe(allIDs, nil, "", "environment-url")
			ln := y.ln("      url: https://example.com/${{ %s }}", g.embed(expr))
			g.probe(ln, expr, kind, name, defined)
		}
		y.ln("    steps:")
		if len(j.stepIDs) == 0 {
			y.ln("      - run: echo")
		}
		for k, id := range j.stepIDs {
			var earlier, later []string
			for q, x := range j.stepIDs {
				if x == "" {
					continue
				}
				if q < k {
					earlier = append(earlier, x)
				} else if q > k {
					later = append(later, x)
				}
			}
			first := true
			item := func(format string, args ...any) int {
				pre := "        "
				if first {
					pre = "      - "
					first = false
				}
				return y.ln(pre+format, args...)
			}
			pos := rapid.SampledFrom([]string{"run", "env", "if", "with", "name", "working-directory"}).Draw(rt, "pos")
			expr, kind, name, defined := g.stepsProbe(earlier, later, id, "step-"+pos)
			if g.i("othersctx", 0, 3) == 0 {
				if e2, k2, n2, d2 := g.jobLevelProbe(jobs, i, inputs, secrets, secretsDeclared, hasCall, autoSecrets); e2 != "" {
					expr, kind, name, defined = e2, k2+"@step", n2, d2
				}
			}
			if id != "" {
				item("id: %s", g.spell(id))
			}
			if pos == "if" && strings.HasPrefix(kind, "secrets/") {
				pos = "run" // the secrets context is not available in jobs.<job_id>.steps.if
			}
			switch pos {
			case "run":
				ln := item("run: echo ${{ %s }}", g.embed(expr))
				g.probe(ln, expr, kind, name, defined)
			case "env":
				item("run: echo")
				item("env:")
				ln := item("  V: ${{ %s }}", g.embed(expr))
				g.probe(ln, expr, kind, name, defined)
			case "if":
				item("run: echo")
				ln := item("if: ${{ %s }}", g.embed(expr))
				g.probe(ln, expr, kind, name, defined)
			case "name":
				item("run: echo")
				ln := item("name: n ${{ %s }}", g.embed(expr))
				g.probe(ln, expr, kind, name, defined)
			case "working-directory":
				// run / shell / working-directory in any order
				for _, k := range rapid.Permutation([]string{"run", "shell", "working-directory"}).Draw(rt, "runkeyorder") {
					switch k {
					case "run":
						item("run: echo")
					case "shell":
						if g.b("withshell") {
							item("shell: bash")
						}
					default:
						ln := item("working-directory: ./${{ %s }}", g.embed(expr))
						g.probe(ln, expr, kind, name, defined)
					}
				}
			default:
				item("uses: owner/unknown-action@v1")
				item("with:")
				ln := item("  arg: ${{ %s }}", g.embed(expr))
				g.probe(ln, expr, kind, name, defined)
			}
		}
	}

	if extra != nil {
		extra(g)
	}
	maxSteps := 0
	for _, j := range jobs {
		if len(j.stepIDs) > maxSteps {
			maxSteps = len(j.stepIDs)
		}
	}
	return &c05Case{YAML: y.b.String(), Probes: g.probes}, nj, maxSteps
}

// stepsProbe draws a steps.* reference. visible = ids in scope; hidden = ids of the same job not in
// scope (later steps); own = the step's own id ("" if none).
func (g *c05gen) stepsProbe(visible, hidden []string, own, where string) (expr, kind, name string, defined bool) {
	suffix := rapid.SampledFrom([]string{"", ".outputs.x", ".outcome", ".conclusion"}).Draw(g.t, "ssuffix")
	choice := g.i("swhich", 0, 4)
	switch {
	case choice <= 1 && len(visible) > 0:
		id := visible[g.i("vi", 0, len(visible)-1)]
		return g.ref("steps", id, suffix), "steps/in-scope@" + where, id, true
	case choice == 2 && len(hidden) > 0:
		id := hidden[g.i("hi", 0, len(hidden)-1)]
		return g.ref("steps", id, suffix), "steps/later-step@" + where, id, false
	case choice == 3 && own != "":
		return g.ref("steps", own, suffix), "steps/own-id@" + where, own, false
	}
	return g.ref("steps", "nosuchstep", suffix), "steps/unknown-id@" + where, "nosuchstep", false
}

func (g *c05gen) jobLevelProbe(jobs []*c05job, i int, inputs, secrets []string, secretsDeclared, hasCall bool, auto []string) (expr, kind, name string, defined bool) {
	j := jobs[i]
	switch g.i("jp", 0, 5) {
	case 0, 1: // needs
		direct := map[int]bool{}
		for _, k := range j.needs {
			direct[k] = true
		}
		// transitive (not direct)
		trans := map[int]bool{}
		var walk func(k int)
		walk = func(k int) {
			for _, q := range jobs[k].needs {
				if !direct[q] && !trans[q] {
					trans[q] = true
				}
				walk(q)
			}
		}
		for _, k := range j.needs {
			walk(k)
		}
		which := g.i("nwhich", 0, 4)
		switch {
		case which <= 1 && len(j.needs) > 0:
			k := j.needs[g.i("nk", 0, len(j.needs)-1)]
			n := jobs[k]
			switch g.i("nsuf", 0, 3) {
			case 0:
				return g.ref("needs", n.id, ".result"), "needs/direct.result", n.id, true
			case 1:
				if len(n.outputs) > 0 {
					o := n.outputs[g.i("no", 0, len(n.outputs)-1)]
					return "needs." + g.spell(n.id) + ".outputs." + g.spell(o), "needs/direct.declared-output", o, true
				}
				if n.isCall {
					return "needs." + g.spell(n.id) + ".outputs.anything", "needs/direct.output-of-called-workflow", "anything", true
				}
				return "needs." + g.spell(n.id) + ".outputs.nosuch", "needs/direct.undeclared-output", "nosuch", false
			case 2:
				if n.isCall {
					return "needs." + g.spell(n.id) + ".outputs.anything", "needs/direct.output-of-called-workflow", "anything", true
				}
				return "needs." + g.spell(n.id) + ".outputs.nosuch", "needs/direct.undeclared-output", "nosuch", false
			default:
				return g.ref("needs", n.id, ""), "needs/direct", n.id, true
			}
		case which == 2 && len(trans) > 0:
			for k := range jobs {
				if trans[k] {
					return g.ref("needs", jobs[k].id, ".result"), "needs/transitive-only", jobs[k].id, false
				}
			}
		case which == 3:
			for k := range jobs {
				if k != i && !direct[k] && !trans[k] {
					return g.ref("needs", jobs[k].id, ".result"), "needs/unrelated-job", jobs[k].id, false
				}
			}
		}
		if which == 4 {
			return g.ref("needs", j.id, ".result"), "needs/self", j.id, false
		}
		return g.ref("needs", "nojob", ".result"), "needs/unknown-job", "nojob", false
	case 2, 3: // matrix
		if j.hasCfg && g.i("mnested", 0, 3) == 0 {
			switch {
			case g.b("cfgknown"):
				return g.ref("matrix", "cfg", "."+g.spell("a")), "matrix/nested-property-of-literal-values", "a", true
			case j.cfgOpen:
				return g.ref("matrix", "cfg", ".zextra"), "matrix/nested-property-of-key-with-expression-value", "zextra", true
			case !j.mopen:
				return g.ref("matrix", "cfg", ".zextra"), "matrix/nested-property-undefined", "zextra", false
			}
		}
		if len(j.mkeys) > 0 && g.b("mdef") {
			k := j.mkeys[g.i("mk", 0, len(j.mkeys)-1)]
			return g.ref("matrix", k, ""), "matrix/declared-key", k, true
		}
		if j.mopen {
			return g.ref("matrix", "whatever", ""), "matrix/expression-defined", "whatever", true
		}
		if !j.hasMat {
			return g.ref("matrix", "os", ""), "matrix/no-matrix", "os", false
		}
		return g.ref("matrix", "nokey", ""), "matrix/undeclared-key", "nokey", false
	case 4: // inputs
		if len(inputs) == 0 {
			return "", "", "", false
		}
		if g.b("idef") {
			n := inputs[g.i("ii", 0, len(inputs)-1)]
			return g.ref("inputs", n, ""), "inputs/declared", n, true
		}
		return g.ref("inputs", "noinput", ""), "inputs/undeclared", "noinput", false
	default: // secrets (not available in `with` of call jobs? it is: jobs.<job_id>.with.<with_id> has no secrets)
		if j.isCall {
			return "", "", "", false
		}
		if !hasCall || !secretsDeclared {
			return g.ref("secrets", "any_name", ""), "secrets/not-declared-anywhere", "any_name", true
		}
		switch g.i("sw", 0, 2) {
		case 0:
			n := secrets[g.i("si", 0, len(secrets)-1)]
			return g.ref("secrets", n, ""), "secrets/declared", n, true
		case 1:
			n := auto[g.i("ai", 0, len(auto)-1)]
			return g.ref("secrets", n, ""), "secrets/automatic", n, true
		}
		return g.ref("secrets", "nosecret", ""), "secrets/undeclared", "nosecret", false
	}
}
