package checks

import (
	"encoding/json"
	"fmt"
	"regexp"
	"sort"
	"strings"
	"testing"
	"unicode"

	"pgregory.net/rapid"
	"verifharness/hx"
	"verifharness/wf"
	ye "verifharness/yamlemit"
)

// ---- C13: unknown, duplicate and missing keys are reported in every section --------------------------

type c13Case struct {
	Base    string `json:"base"`    // workflow before the key mutation (may contain seeded sibling errors)
	Mutated string `json:"mutated"` // workflow after it
	Kind    string `json:"kind"`    // foreign | duplicate | missing
	Section string `json:"section"`
	Key     string `json:"key"`
	Line    int    `json:"line"` // where the report is expected (foreign/duplicate)
	Col     int    `json:"col"`
	BaseOK  bool   `json:"base_clean"` // base had no seeded errors
}

// several mutated mappings written on ONE line (flow style): every one of them is reported at its own place
type c13Line struct {
	YAML   string   `json:"yaml"`
	Line   int      `json:"line"`
	Cols   []int    `json:"cols"`    // expected syntax-check diagnostics at (Line, col)
	AtLeast int     `json:"at_least"` // for missing keys: minimal number of syntax-check diagnostics on Line
	What   string   `json:"what"`
}

func checkOneLine(c *c13Line) (key, msg string) {
	got, err, pan, st := lintSafe([]byte(c.YAML))
	if pan != nil || err != nil {
		return "C13/panic-or-fatal", fmt.Sprintf("%v %v %s\n%s", pan, err, st, c.YAML)
	}
	at := map[int]int{}
	n := 0
	for _, d := range got {
		if d.Kind == "syntax-check" && d.Line == c.Line {
			at[d.Col]++
			n++
		}
	}
	for _, col := range c.Cols {
		if at[col] == 0 {
			return "C13/not-reported:one-line/" + c.What, fmt.Sprintf("%s: no syntax-check diagnostic at %d:%d (expected at columns %v); got %v\n%s", c.What, c.Line, col, c.Cols, diagStrings(got), c.YAML)
		}
	}
	if n < c.AtLeast {
		return "C13/not-reported:one-line/" + c.What, fmt.Sprintf("%s: %d syntax-check diagnostics on line %d, expected at least %d; got %v\n%s", c.What, n, c.Line, c.AtLeast, diagStrings(got), c.YAML)
	}
	return "", ""
}

var rePosInMsg = regexp.MustCompile(`line:\d+,col:\d+`)

func normMsgs(ds []Diag) []string {
	var out []string
	for _, d := range ds {
		out = append(out, d.Kind+"|"+rePosInMsg.ReplaceAllString(d.Msg, "line:N,col:M"))
	}
	sort.Strings(out)
	return out
}

func checkKeyMutation(c *c13Case) (key, msg string) {
	base, err, pan, st := lintSafe([]byte(c.Base))
	if pan != nil || err != nil {
		return "C13/panic-or-fatal", fmt.Sprintf("%v %v %s\n%s", pan, err, st, c.Base)
	}
	got, err, pan, st := lintSafe([]byte(c.Mutated))
	if pan != nil || err != nil {
		return "C13/panic-or-fatal", fmt.Sprintf("%v %v %s\n%s", pan, err, st, c.Mutated)
	}
	cls := c.Kind + "@" + c.Section
	switch c.Kind {
	case "foreign", "duplicate":
		ok := false
		for _, d := range got {
			if d.Kind == "syntax-check" && d.Line == c.Line && d.Col == c.Col {
				if c.Kind == "foreign" || strings.Contains(d.Msg, "duplicate") {
					ok = true
				}
			}
		}
		if !ok {
			return "C13/not-reported:" + cls, fmt.Sprintf("%s key %q in %s: no syntax-check diagnostic at %d:%d; got %v\n%s", c.Kind, c.Key, c.Section, c.Line, c.Col, diagStrings(got), c.Mutated)
		}
	case "missing":
		// a syntax-check diagnostic that the base does not have (multiset difference by message)
		have := map[string]int{}
		for _, d := range base {
			if d.Kind == "syntax-check" {
				have[rePosInMsg.ReplaceAllString(d.Msg, "")]++
			}
		}
		fresh := 0
		for _, d := range got {
			if d.Kind == "syntax-check" {
				m := rePosInMsg.ReplaceAllString(d.Msg, "")
				if have[m] > 0 {
					have[m]--
				} else {
					fresh++
				}
			}
		}
		if fresh == 0 {
			return "C13/not-reported:" + cls + "." + c.Key, fmt.Sprintf("mandatory key %q removed from %s: no new syntax-check diagnostic; got %v\n%s", c.Key, c.Section, diagStrings(got), c.Mutated)
		}
		return "", ""
	}
	// non-suppression: everything the base reported is still reported
	need := map[string]int{}
	for _, m := range normMsgs(base) {
		need[m]++
	}
	for _, m := range normMsgs(got) {
		need[m]--
	}
	for m, n := range need {
		if n > 0 {
			return "C13/sibling-diagnostic-suppressed:" + cls, fmt.Sprintf("%s key %q in %s suppressed a sibling diagnostic: %s\nbase: %v\nafter: %v\n%s", c.Kind, c.Key, c.Section, m, diagStrings(base), diagStrings(got), c.Mutated)
		}
	}
	return "", ""
}

func init() {
	hx.RegisterReplayer("C13/one-line", func(r *hx.Run, data json.RawMessage) {
		var c c13Line
		if err := json.Unmarshal(data, &c); err != nil {
			panic(err)
		}
		if k, m := checkOneLine(&c); k != "" {
			r.Report(k, m, "C13/one-line", &c)
		}
	})
	hx.RegisterReplayer("C13/keys", func(r *hx.Run, data json.RawMessage) {
		var c c13Case
		if err := json.Unmarshal(data, &c); err != nil {
			panic(err)
		}
		if k, m := checkKeyMutation(&c); k != "" {
			r.Report(k, m, "C13/keys", &c)
		}
	})
}

func allSectionKeys() []string {
	seen := map[string]bool{}
	for _, s := range wf.Sections {
		for _, k := range s.Keys {
			seen[k] = true
		}
	}
	var ks []string
	for k := range seen {
		ks = append(ks, k)
	}
	sort.Strings(ks)
	return ks
}

func ownKeys(s *wf.Section) map[string]bool {
	own := map[string]bool{}
	add := func(n string) {
		for _, k := range wf.Sections[n].Keys {
			own[k] = true
		}
	}
	add(s.Name)
	switch s.Name {
	case "job", "call-job":
		add("job")
		add("call-job")
	case "run-step", "uses-step":
		add("run-step")
		add("uses-step")
	case "webhook":
		add("workflow_dispatch") // "inputs" is not foreign to every event
	}
	return own
}

func flipCase(s string) string {
	var b strings.Builder
	for i, r := range s {
		if i == 0 && r >= 'a' && r <= 'z' {
			b.WriteRune(r - 32)
		} else if i == 0 && r >= 'A' && r <= 'Z' {
			b.WriteRune(r + 32)
		} else {
			b.WriteRune(r)
		}
	}
	return b.String()
}

func TestC13(t *testing.T) {
	hx.Main(t, "C13", func(r *hx.Run) {
		r.Rule = "clean workflow from the workflow-syntax model (optionally with 1-3 malformed placeholders seeded into sibling values) x EVERY fixed-key mapping x {foreign key: fresh name | key of another section | letter-case variant of an own key | near miss of an accepted key (<key>-ignore, <key>s, ...) | fresh name after a key that is broken in itself (empty or a sequence); duplicate of EVERY existing key in turn; removal of each mandatory key} and EVERY user-named mapping x {duplicate: same spelling | other letter case where names are case-insensitive}. Oracle from the model: syntax-check diagnostic exactly at the inserted key (at the item for schedule elements), at the repetition for duplicates, >=1 new syntax-check diagnostic for a removed mandatory key, and all diagnostics of the base still present. A second family writes 2-4 sibling mappings (steps, schedule items, dispatch inputs, jobs, container with repeated keys, steps without run/uses) in flow style on ONE line and plants the same (or different) foreign key / repetition / omission in a random non-empty subset of them: every one must be reported at its own column. Non-trivial: every mutation; distinct = (section, mutation kind, key, base clean or seeded)."
		r.Assumptions = []string{"fixed key names are case-sensitive (GitHub's syntax), so a letter-case variant is a foreign key", "case-insensitive user-named mappings asserted: jobs, inputs, secrets, outputs, with, matrix rows; env/permissions/services only for same-spelling duplicates"}
		others := allSectionKeys()
		secCov := map[string]int64{}
		r.Check(t, "mappings", hx.N(80, 1200), func(rt *rapid.T) {
			g := &wf.G{T: rt, Rare: rapid.Bool().Draw(rt, "rare")}
			w := g.Workflow()
			if rapid.Bool().Draw(rt, "shufflekeys") {
				g.ShuffleKeys(w.Root)
			}
			lay := g.Layout()
			src := ye.Emit(w.Root, lay)
			if ds, err := lint(src); err != nil || len(ds) > 0 {
				r.Discard("generated workflow not clean")
				return
			}
			var maps []*ye.Node
			w.Root.Walk(func(n, p *ye.Node, idx int, isKey bool) {
				if n.Kind == ye.Map && (wf.SectionOf(n) != nil || wf.UserMapOf(n) != nil) && !n.Flow {
					maps = append(maps, n)
				}
			})
			for mi, m := range maps {
				// seeded sibling errors (in a third of the cases)
				var restore []func()
				baseClean := true
				if (mi+len(maps))%3 == 0 {
					var sibs []*ye.Node
					m.Walk(func(n, p *ye.Node, idx int, isKey bool) {
						if l := wf.LeafOf(n); l != nil && !isKey && n.Kind == ye.Scalar && l.Typed == "" && l.Exempt == "" {
							sibs = append(sibs, n)
						}
					})
					for k := 0; k < 3 && k < len(sibs); k++ {
						s := sibs[(mi*7+k*3)%len(sibs)]
						old, oldRaw, oldStyle := s.Val, s.Raw, s.Style
						if old == "${{ github. }}" {
							continue
						}
						s.Val, s.Raw, s.Style = "${{ github. }}", "", ye.Auto
						restore = append(restore, func() { s.Val, s.Raw, s.Style = old, oldRaw, oldStyle })
						baseClean = false
					}
				}
				base := ye.Emit(w.Root, lay)
				run := func(c *c13Case) bool {
					c.Base, c.BaseOK = base, baseClean
					r.Eval()
					r.NT(c.Section, c.Kind, c.Key, fmt.Sprint(baseClean))
					secCov[c.Kind+"@"+c.Section]++
					if secCov[c.Kind+"@"+c.Section] == 1 {
						r.Sample(map[string]any{"section": c.Section, "kind": c.Kind, "key": c.Key, "line": c.Line, "col": c.Col})
					}
					if k, msg := checkKeyMutation(c); k != "" {
						for _, f := range restore {
							f()
						}
						r.Fail(rt, k, msg, "C13/keys", c)
						return false
					}
					return true
				}
				if sec := wf.SectionOf(m); sec != nil {
					own := ownKeys(sec)
					// foreign keys
					var fks []string
					fks = append(fks, "zzforeign")
					for off := 0; off < len(others); off++ {
						k := others[(mi*13+off)%len(others)]
						if !own[k] {
							fks = append(fks, k)
							break
						}
					}
					if len(m.Keys) > 0 {
						fks = append(fks, flipCase(m.Keys[mi%len(m.Keys)].Val))
					}
					// near misses of accepted keys: with a suffix / prefix that other keys of the syntax carry
					if ks := sec.Keys; len(ks) > 0 {
						base := ks[(mi*7)%len(ks)]
						for _, nm := range []string{base + "-ignore", base + "s", strings.TrimSuffix(base, "-ignore") + "-only", strings.TrimSuffix(base, "s")} {
							if !own[nm] && nm != "" && nm != base {
								fks = append(fks, nm)
							}
						}
					}
					for fi, fkName := range fks {
						idx := (mi + fi) % (len(m.Keys) + 1)
						fk, fv := ye.S(fkName), ye.S("v")
						m.Keys = append(m.Keys[:idx:idx], append([]*ye.Node{fk}, m.Keys[idx:]...)...)
						m.Vals = append(m.Vals[:idx:idx], append([]*ye.Node{fv}, m.Vals[idx:]...)...)
						mut := ye.Emit(w.Root, lay)
						c := &c13Case{Mutated: mut, Kind: "foreign", Section: sec.Name, Key: fkName, Line: fk.Line, Col: fk.Col}
						if sec.Name == "schedule-item" {
							c.Line, c.Col = m.Line, m.Col
						}
						m.Keys = append(m.Keys[:idx:idx], m.Keys[idx+1:]...)
						m.Vals = append(m.Vals[:idx:idx], m.Vals[idx+1:]...)
						if !run(c) {
							return
						}
					}
					// a key that is broken in itself (empty, a sequence, null) followed by a foreign key: the
					// broken one must not end the examination of the mapping
					if sec.Name != "schedule-item" {
						var bad *ye.Node
						switch mi % 3 {
						case 0:
							bad = ye.Q("", ye.Double)
						case 1:
							bad = &ye.Node{Kind: ye.Scalar, Raw: "[a, b]"}
						default:
							bad = ye.Q("", ye.Single)
						}
						idx := (mi * 7) % (len(m.Keys) + 1)
						fk := ye.S("zzafterbroken")
						at2 := idx + 1 + (mi*3)%(len(m.Keys)-idx+1)
						m.Keys = append(m.Keys[:idx:idx], append([]*ye.Node{bad}, m.Keys[idx:]...)...)
						m.Vals = append(m.Vals[:idx:idx], append([]*ye.Node{ye.S("v")}, m.Vals[idx:]...)...)
						m.Keys = append(m.Keys[:at2:at2], append([]*ye.Node{fk}, m.Keys[at2:]...)...)
						m.Vals = append(m.Vals[:at2:at2], append([]*ye.Node{ye.S("v")}, m.Vals[at2:]...)...)
						mut := ye.Emit(w.Root, lay)
						c := &c13Case{Mutated: mut, Kind: "foreign", Section: sec.Name + "(after-broken-key)", Key: "zzafterbroken", Line: fk.Line, Col: fk.Col}
						m.Keys = append(m.Keys[:at2:at2], m.Keys[at2+1:]...)
						m.Vals = append(m.Vals[:at2:at2], m.Vals[at2+1:]...)
						m.Keys = append(m.Keys[:idx:idx], m.Keys[idx+1:]...)
						m.Vals = append(m.Vals[:idx:idx], m.Vals[idx+1:]...)
						if !run(c) {
							return
						}
					}
					// mandatory keys
					for _, mk := range sec.Mandatory {
						i := -1
						for j, kn := range m.Keys {
							if kn.Val == mk {
								i = j
							}
						}
						if i < 0 {
							continue
						}
						sk, sv := m.Keys[i], m.Vals[i]
						m.Keys = append(m.Keys[:i:i], m.Keys[i+1:]...)
						m.Vals = append(m.Vals[:i:i], m.Vals[i+1:]...)
						mut := ye.Emit(w.Root, lay)
						m.Keys = append(m.Keys[:i:i], append([]*ye.Node{sk}, m.Keys[i:]...)...)
						m.Vals = append(m.Vals[:i:i], append([]*ye.Node{sv}, m.Vals[i:]...)...)
						if !run(&c13Case{Mutated: mut, Kind: "missing", Section: sec.Name, Key: mk}) {
							return
						}
						// the same removal next to an unknown or misplaced sibling key: the missing key
						// must still be reported (non-suppression)
						extras := map[string][]string{"job": {"zzforeign", "with", "secrets"}, "run-step": {"zzforeign", "with"}, "uses-step": {"zzforeign", "shell"}}[sec.Name]
						if extras == nil {
							extras = []string{"zzforeign"}
						}
						if sec.Name == "schedule-item" {
							continue // one item-level message covers both the unknown and the missing key
						}
						ex := extras[(mi+i)%len(extras)]
						var exv *ye.Node = ye.S("v")
						if ex == "with" || ex == "secrets" {
							exv = ye.M().Set("p", ye.S("v"))
						}
						m.Keys = append(m.Keys, ye.S(ex))
						m.Vals = append(m.Vals, exv)
						base2 := ye.Emit(w.Root, lay)
						m.Keys = append(m.Keys[:i:i], m.Keys[i+1:]...)
						m.Vals = append(m.Vals[:i:i], m.Vals[i+1:]...)
						mut2 := ye.Emit(w.Root, lay)
						m.Keys = append(m.Keys[:i:i], append([]*ye.Node{sk}, m.Keys[i:]...)...)
						m.Vals = append(m.Vals[:i:i], append([]*ye.Node{sv}, m.Vals[i:]...)...)
						m.Keys = m.Keys[:len(m.Keys)-1]
						m.Vals = m.Vals[:len(m.Vals)-1]
						saved := base
						base = base2
						ok := run(&c13Case{Mutated: mut2, Kind: "missing", Section: sec.Name + "+sibling:" + ex, Key: mk})
						base = saved
						if !ok {
							return
						}
					}
				}
				// duplicates (fixed-key and user-named mappings)
				if len(m.Keys) > 0 {
					name := ""
					ci := false
					if s := wf.SectionOf(m); s != nil {
						name = s.Name
					} else {
						u := wf.UserMapOf(m)
						name, ci = "user:"+u.Name, u.CaseInsensitive
					}
					// every key of the mapping is repeated in turn (same spelling); one of them also in
					// another letter case where names are case-insensitive
					type dupVariant struct {
						k    int
						flip bool
					}
					var variants []dupVariant
					for k := range m.Keys {
						if k < 8 {
							variants = append(variants, dupVariant{k, false})
						}
					}
					if ci {
						variants = append(variants, dupVariant{(mi * 5) % len(m.Keys), true})
					}
					for _, dvv := range variants {
						k, flip := dvv.k, dvv.flip
						dk, dv := m.Keys[k].Clone(), m.Vals[k].Clone()
						kind := "duplicate"
						if flip {
							if flipCase(dk.Val) == dk.Val {
								continue
							}
							dk.Val = flipCase(dk.Val)
						}
						m.Keys = append(m.Keys, dk)
						m.Vals = append(m.Vals, dv)
						mut := ye.Emit(w.Root, lay)
						c := &c13Case{Mutated: mut, Kind: kind, Section: name, Key: dk.Val, Line: dk.Line, Col: dk.Col}
						m.Keys = m.Keys[:len(m.Keys)-1]
						m.Vals = m.Vals[:len(m.Vals)-1]
						if flip {
							c.Section += "(other-case)"
						}
						if !run(c) {
							return
						}
					}
				}
				// a fresh pair of keys that differ only in the case of letters, including letters outside
				// ASCII, in mappings with case-insensitive names
				if u := wf.UserMapOf(m); wf.SectionOf(m) == nil && u != nil && u.CaseInsensitive && len(m.Keys) > 0 {
					names := []string{"école", "ärger_ö", "x-é", "naïve", "straße_ü", "zz_plain"}
					n1 := names[mi%len(names)]
					n2 := strings.ToUpper(n1)
					if mi%2 == 0 {
						// only the non-ASCII letters change case
						n2 = strings.Map(func(c rune) rune {
							if c > 127 {
								return unicode.ToUpper(c)
							}
							return c
						}, n1)
					}
					if n2 != n1 {
						k := (mi * 3) % len(m.Keys)
						k1, v1 := m.Keys[k].Clone(), m.Vals[k].Clone()
						k2, v2 := m.Keys[k].Clone(), m.Vals[k].Clone()
						k1.Val, k2.Val = n1, n2
						m.Keys = append(m.Keys, k1, k2)
						m.Vals = append(m.Vals, v1, v2)
						mut := ye.Emit(w.Root, lay)
						c := &c13Case{Mutated: mut, Kind: "duplicate", Section: "user:" + u.Name + "(fresh-pair-other-case)", Key: n2, Line: k2.Line, Col: k2.Col}
						m.Keys = m.Keys[:len(m.Keys)-2]
						m.Vals = m.Vals[:len(m.Vals)-2]
						if !run(c) {
							return
						}
					}
				}
				for _, f := range restore {
					f()
				}
			}
		})
		// the same mutation in several sibling mappings written on one line: identical messages on one line
		r.Check(t, "one-line", hx.N(600, 20000), func(rt *rapid.T) {
			what := rapid.SampledFrom([]string{"steps-foreign", "schedule-foreign", "container-duplicates", "steps-missing-run", "inputs-foreign", "jobs-foreign", "matrix-include-free"}).Draw(rt, "what")
			n := rapid.IntRange(2, 4).Draw(rt, "n")
			sameKey := rapid.IntRange(0, 3).Draw(rt, "samekey") > 0
			keyOf := func(i int) string {
				if sameKey {
					return "zzz"
				}
				return fmt.Sprintf("zz%d", i)
			}
			sp := rapid.SampledFrom([]string{"", " "}).Draw(rt, "sp")
			c := &c13Line{What: what}
			var b strings.Builder
			col := func() int {
				c.Line = strings.Count(b.String(), "\n") + 1 // the last planted position is on the flow line
				return b.Len() - strings.LastIndex(b.String(), "\n")
			}
			head := "on:\n  push:\n"
			jobHead := "jobs:\n  a:\n    runs-on: ubuntu-latest\n"
			mutated := make([]bool, n)
			any := false
			for i := range mutated {
				mutated[i] = rapid.IntRange(0, 3).Draw(rt, "mut") > 0
				any = any || mutated[i]
			}
			if !any {
				mutated[n-1] = true
			}
			items := func(open string, item func(i int) (string, string), at string) {
				// item returns the text before the planted key and the text from the key on
				b.WriteString(open + "[" + sp)
				for i := 0; i < n; i++ {
					if i > 0 {
						b.WriteString("," + " ")
					}
					pre, post := item(i)
					start := col()
					if mutated[i] {
						b.WriteString(pre)
						if at == "item" {
							c.Cols = append(c.Cols, start)
						} else {
							c.Cols = append(c.Cols, col())
						}
						b.WriteString(post)
					} else {
						b.WriteString(strings.TrimSuffix(pre, ", ") + "}")
					}
				}
				b.WriteString(sp + "]\n")
			}
			switch what {
			case "steps-foreign":
				b.WriteString(head + jobHead)
				items("    steps: ", func(i int) (string, string) {
					return fmt.Sprintf("{run: echo %d, ", i), keyOf(i) + ": 1}"
				}, "key")
			case "schedule-foreign":
				b.WriteString("on:\n  push:\n")
				items("  schedule: ", func(i int) (string, string) {
					return fmt.Sprintf("{cron: '0 %d * * *', ", i), keyOf(i) + ": 1}"
				}, "item")
				b.WriteString(jobHead + "    steps:\n      - run: echo\n")
			case "inputs-foreign":
				b.WriteString("on:\n  workflow_dispatch:\n")
				b.WriteString("    inputs: {" + sp)
				for i := 0; i < n; i++ {
					if i > 0 {
						b.WriteString(", ")
					}
					b.WriteString(fmt.Sprintf("in%d: {type: string, ", i))
					if mutated[i] {
						c.Cols = append(c.Cols, col())
						b.WriteString(keyOf(i) + ": 1}")
					} else {
						b.WriteString("required: false}")
					}
				}
				b.WriteString(sp + "}\n" + jobHead + "    steps:\n      - run: echo\n")
			case "jobs-foreign":
				b.WriteString(head)
				b.WriteString("jobs: {" + sp)
				for i := 0; i < n; i++ {
					if i > 0 {
						b.WriteString(", ")
					}
					b.WriteString(fmt.Sprintf("j%d: {runs-on: ubuntu-latest, steps: [{run: echo}], ", i))
					if mutated[i] {
						c.Cols = append(c.Cols, col())
						b.WriteString(keyOf(i) + ": 1}")
					} else {
						b.WriteString("name: x}")
					}
				}
				b.WriteString(sp + "}\n")
			case "container-duplicates":
				b.WriteString(head + jobHead)
				b.WriteString("    container: {" + sp + "image: 'a:0'")
				for i := 1; i <= n; i++ {
					b.WriteString(", ")
					c.Cols = append(c.Cols, col())
					b.WriteString(fmt.Sprintf("image: 'a:%d'", i))
				}
				b.WriteString(sp + "}\n    steps:\n      - run: echo\n")
			case "steps-missing-run":
				b.WriteString(head + jobHead)
				b.WriteString("    steps: [" + sp)
				col()
				for i := 0; i < n; i++ {
					if i > 0 {
						b.WriteString(", ")
					}
					if mutated[i] {
						c.AtLeast++
						b.WriteString("{name: x}")
					} else {
						b.WriteString("{run: echo}")
					}
				}
				b.WriteString(sp + "]\n")
			case "matrix-include-free":
				// negative control: user-named keys repeated in sibling mappings on one line are fine
				b.WriteString(head + jobHead)
				b.WriteString("    strategy:\n      matrix: {include: [{zzz: 1}, {zzz: 2}]}\n    steps:\n      - run: echo\n")
			}
			c.YAML = b.String()
			r.Eval()
			r.NT(c.YAML)
			cls := "same-message"
			if !sameKey {
				cls = "different-messages"
			}
			r.Class(fmt.Sprintf("one-line/%s/%s/mutated=%d", what, cls, len(c.Cols)+c.AtLeast))
			if k, m := checkOneLine(c); k != "" {
				r.Fail(rt, k, m, "C13/one-line", c)
			}
			if what == "matrix-include-free" {
				if ds, _ := lint(c.YAML); len(ds) > 0 {
					r.Fail(rt, "C13/spurious:one-line/user-named-keys", fmt.Sprintf("clean flow-style workflow got %v\n%s", diagStrings(ds), c.YAML), "C13/one-line", c)
				}
			}
		})
		r.Extra["mutation_kind_at_section_counts"] = secCov
	})
}
