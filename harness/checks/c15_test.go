package checks

import (
	"bytes"
	"encoding/json"
	"fmt"
	"os"
	"os/exec"
	"path/filepath"
	"regexp"
	"sort"
	"strings"
	"testing"

	"pgregory.net/rapid"
	"verifharness/hx"
	"verifharness/world"
)

// ---- C15: ignore patterns are an exact filter; results do not depend on the cwd ---------------------

type c15Path struct {
	Glob   string   `json:"glob"`
	Ignore []string `json:"ignore"`
}

type c15Case struct {
	Workflow  string    `json:"workflow"`   // content of the linted file
	File      string    `json:"file"`       // path relative to the repository root
	RepoDir   string    `json:"repo_dir"`   // repository directory relative to the world root
	Sibling   string    `json:"sibling"`    // optional second repository (prefix-sharing name) with its own config
	Paths     []c15Path `json:"paths"`      // config of the repository
	CLIIgnore []string  `json:"cli_ignore"` // -ignore patterns
	BadRegex  bool      `json:"bad_regex"`  // an invalid -ignore regex is added (expects exit 3)
	BadFlag   bool      `json:"bad_flag"`   // an unknown flag is added (expects exit 2)
}

type c15Diag struct {
	Line, Col int
	Msg, Kind string
}

var actionlintBin = func() string {
	b := os.Getenv("VERIF_BUILD")
	if b == "" {
		b = "/verif/.build"
	}
	return filepath.Join(b, "actionlint")
}()

func runActionlint(cwd string, args ...string) (diags []c15Diag, exit int, stderr string, err error) {
	diags, _, exit, stderr, err = runActionlintFiles(cwd, args...)
	return
}

// runActionlintFiles also returns the file each diagnostic is attributed to (as printed).
func runActionlintFiles(cwd string, args ...string) (diags []c15Diag, files []string, exit int, stderr string, err error) {
	cmd := exec.Command(actionlintBin, append([]string{"-format", "{{json .}}"}, args...)...)
	cmd.Dir = cwd
	var so, se bytes.Buffer
	cmd.Stdout, cmd.Stderr = &so, &se
	cmd.Env = append(os.Environ(), "NO_COLOR=1")
	e := cmd.Run()
	exit = 0
	if e != nil {
		if ee, ok := e.(*exec.ExitError); ok {
			exit = ee.ExitCode()
		} else {
			return nil, nil, -1, "", e
		}
	}
	stderr = se.String()
	if so.Len() > 0 {
		var fs []struct {
			Message string `json:"message"`
			Line    int    `json:"line"`
			Column  int    `json:"column"`
			Kind    string `json:"kind"`
			File    string `json:"filepath"`
		}
		if je := json.Unmarshal(so.Bytes(), &fs); je != nil {
			return nil, nil, exit, stderr, fmt.Errorf("stdout is not JSON: %v: %q", je, so.String())
		}
		for _, f := range fs {
			diags = append(diags, c15Diag{f.Line, f.Column, f.Message, f.Kind})
			files = append(files, f.File)
		}
	}
	return diags, files, exit, stderr, nil
}

// globMatch: doublestar-style matching for the generated patterns (** = any number of segments,
// * = any characters within one segment).
func globMatch(pat, path string) bool {
	ps, ss := strings.Split(pat, "/"), strings.Split(path, "/")
	var rec func(i, j int) bool
	rec = func(i, j int) bool {
		if i == len(ps) {
			return j == len(ss)
		}
		if ps[i] == "**" {
			for k := j; k <= len(ss); k++ {
				if rec(i+1, k) {
					return true
				}
			}
			return false
		}
		if j == len(ss) {
			return false
		}
		if ok, _ := regexp.MatchString(segmentRegexp(ps[i]), ss[j]); !ok {
			return false
		}
		return rec(i+1, j+1)
	}
	return rec(0, 0)
}

// segmentRegexp translates one path segment of a glob (documented syntax: * ? [abc] [a-z] [!abc]
// [^abc] {alt1,alt2}, backslash escapes) into a regular expression.
func segmentRegexp(seg string) string {
	var b strings.Builder
	b.WriteString("^")
	depth := 0
	for i := 0; i < len(seg); i++ {
		c := seg[i]
		switch {
		case c == '\\' && i+1 < len(seg):
			i++
			b.WriteString(regexp.QuoteMeta(string(seg[i])))
		case c == '*':
			b.WriteString("[^/]*")
		case c == '?':
			b.WriteString("[^/]")
		case c == '[':
			j := strings.IndexByte(seg[i+1:], ']')
			if j < 0 {
				b.WriteString(`\[`)
				continue
			}
			body := seg[i+1 : i+1+j]
			neg := false
			if strings.HasPrefix(body, "!") || strings.HasPrefix(body, "^") {
				neg, body = true, body[1:]
			}
			b.WriteString("[")
			if neg {
				b.WriteString("^")
			}
			b.WriteString(strings.NewReplacer(`\`, `\\`, "[", `\[`, "^", `\^`).Replace(body))
			b.WriteString("]")
			i += j + 1
		case c == '{':
			depth++
			b.WriteString("(?:")
		case c == '}' && depth > 0:
			depth--
			b.WriteString(")")
		case c == ',' && depth > 0:
			b.WriteString("|")
		default:
			b.WriteString(regexp.QuoteMeta(string(c)))
		}
	}
	b.WriteString("$")
	return b.String()
}

func diagsString(ds []c15Diag) string {
	var b strings.Builder
	for _, d := range ds {
		fmt.Fprintf(&b, "  %d:%d [%s] %s\n", d.Line, d.Col, d.Kind, d.Msg)
	}
	return b.String()
}

func checkIgnoreAndCwd(c *c15Case) (key, msg string, stats map[string]int) {
	stats = map[string]int{}
	w := world.New()
	defer w.Cleanup()
	w.Repo(c.RepoDir)
	os.MkdirAll(filepath.Join(w.Root, "elsewhere"), 0o755)
	file := w.Write(filepath.Join(c.RepoDir, c.File), c.Workflow)
	if c.Sibling != "" {
		w.Repo(c.Sibling)
		w.Write(filepath.Join(c.Sibling, ".github/actionlint.yaml"), "paths:\n  \"**/*\":\n    ignore:\n      - \".*\"\n")
	}
	repoRoot := filepath.Join(w.Root, c.RepoDir)
	// unfiltered baseline: no config, no -ignore
	base, exit, stderr, err := runActionlint(repoRoot, file)
	if err != nil || (exit != 0 && exit != 1) {
		return "C15/baseline-run-failed", fmt.Sprintf("exit %d err %v stderr %q\n%s", exit, err, stderr, c.Workflow), stats
	}
	// config
	if len(c.Paths) > 0 {
		var cfg strings.Builder
		cfg.WriteString("paths:\n")
		for _, p := range c.Paths {
			fmt.Fprintf(&cfg, "  %q:\n    ignore:\n", p.Glob)
			for _, ig := range p.Ignore {
				fmt.Fprintf(&cfg, "      - %s\n", yamlSingleQuote(ig))
			}
		}
		w.Write(filepath.Join(c.RepoDir, ".github/actionlint.yaml"), cfg.String())
	}
	// reference filter
	var pats []*regexp.Regexp
	for _, s := range c.CLIIgnore {
		pats = append(pats, regexp.MustCompile(s))
	}
	for _, p := range c.Paths {
		if globMatch(p.Glob, filepath.ToSlash(c.File)) {
			stats["config-glob-applies"]++
			for _, s := range p.Ignore {
				pats = append(pats, regexp.MustCompile(s))
			}
		}
	}
	var want []c15Diag
	for _, d := range base {
		drop := false
		for _, re := range pats {
			if re.MatchString(d.Msg) {
				drop = true
			}
		}
		if !drop {
			want = append(want, d)
		}
	}
	stats["unfiltered"] = len(base)
	stats["removed"] = len(base) - len(want)
	wantExit := 0
	if len(want) > 0 {
		wantExit = 1
	}
	var flags []string
	for _, s := range c.CLIIgnore {
		flags = append(flags, "-ignore", s)
	}
	if c.BadRegex {
		flags = append(flags, "-ignore", "(unclosed")
		wantExit = 3
	}
	if c.BadFlag {
		flags = append(flags, "-zz-no-such-flag")
		wantExit = 2
	}
	type inv struct {
		name, cwd string
		args      []string
	}
	rel := func(from string) string {
		r, _ := filepath.Rel(from, file)
		return r
	}
	invs := []inv{
		{"cwd=repo-root,relative", repoRoot, []string{rel(repoRoot)}},
		{"cwd=repo-root,dot-slash", repoRoot, []string{"./" + rel(repoRoot)}},
		{"cwd=repo-root,absolute", repoRoot, []string{file}},
		{"cwd=repo-root,no-argument", repoRoot, nil},
		{"cwd=parent,relative", w.Root, []string{rel(w.Root)}},
		{"cwd=parent,dot-slash", w.Root, []string{"./" + rel(w.Root)}},
		{"cwd=parent,absolute", w.Root, []string{file}},
		{"cwd=nested,relative", filepath.Dir(file), []string{filepath.Base(file)}},
		{"cwd=nested,absolute", filepath.Dir(file), []string{file}},
		{"cwd=nested,no-argument", filepath.Dir(file), nil},
		{"cwd=unrelated,relative", filepath.Join(w.Root, "elsewhere"), []string{rel(filepath.Join(w.Root, "elsewhere"))}},
		{"cwd=unrelated,absolute", filepath.Join(w.Root, "elsewhere"), []string{file}},
	}
	// from a directory outside the repository whose path starts with the repository's path (repo2,
	// repo-old), and from the root by a path that leaves the repository and comes back
	if c.Sibling != "" {
		sib := filepath.Join(w.Root, c.Sibling)
		invs = append(invs,
			inv{"cwd=prefix-sharing-sibling,relative", sib, []string{rel(sib)}},
			inv{"cwd=prefix-sharing-sibling,absolute", sib, []string{file}},
		)
	}
	invs = append(invs, inv{"cwd=repo-root,out-and-back", repoRoot, []string{filepath.Join("..", filepath.Base(repoRoot), rel(repoRoot))}})
	// the same repository reached through a symbolic link to its root directory
	link := filepath.Join(w.Root, "elsewhere", "link-to-repo")
	if err := os.Symlink(repoRoot, link); err == nil {
		viaLink := filepath.Join(link, c.File)
		invs = append(invs,
			inv{"cwd=parent,through-symlink-absolute", w.Root, []string{viaLink}},
			inv{"cwd=unrelated,through-symlink-relative", filepath.Join(w.Root, "elsewhere"), []string{filepath.Join("link-to-repo", c.File)}},
			inv{"cwd=symlink,relative", link, []string{c.File}},
			inv{"cwd=symlink,no-argument", link, nil},
		)
	}
	for _, iv := range invs {
		got, exit, stderr, err := runActionlint(iv.cwd, append(append([]string{}, flags...), iv.args...)...)
		if err != nil {
			return "C15/run-failed", fmt.Sprintf("%s: %v", iv.name, err), stats
		}
		stats["invocations"]++
		if c.BadRegex || c.BadFlag {
			if exit != wantExit {
				return "C15/exit-status", fmt.Sprintf("%s: exit status %d, want %d (bad regex %v, bad flag %v); stderr %q", iv.name, exit, wantExit, c.BadRegex, c.BadFlag, stderr), stats
			}
			continue
		}
		if exit == 3 || exit == 2 {
			return "C15/unexpected-fatal", fmt.Sprintf("%s: exit status %d, stderr %q\n%s", iv.name, exit, stderr, c15Show(c)), stats
		}
		same := len(got) == len(want)
		if same {
			for i := range got {
				if got[i] != want[i] {
					same = false
				}
			}
		}
		if !same {
			key := "C15/filtered-output-is-not-unfiltered-minus-matches"
			if iv.name == "cwd=repo-root,relative" {
				key += "(cwd=repo-root,relative)"
			} else {
				// the plain invocation from the repository root is right? then it is a dependence on cwd / spelling
				g2, _, _, _ := runActionlint(repoRoot, append(append([]string{}, flags...), rel(repoRoot))...)
				ok2 := len(g2) == len(want)
				if ok2 {
					for i := range g2 {
						if g2[i] != want[i] {
							ok2 = false
						}
					}
				}
				if ok2 {
					key = "C15/result-depends-on-cwd-or-path-spelling"
					if len(c.Paths) > 0 {
						key = "C15/config-paths-glob-matched-against-cwd-relative-path"
					}
				}
			}
			return key, fmt.Sprintf("%s\nunfiltered:\n%sexpected after filtering:\n%sgot:\n%s%s", iv.name, diagsString(base), diagsString(want), diagsString(got), c15Show(c)), stats
		}
		if exit != wantExit {
			return "C15/exit-status", fmt.Sprintf("%s: exit status %d but %d diagnostics remain (want %d)\n%s", iv.name, exit, len(got), wantExit, c15Show(c)), stats
		}
	}
	// two repositories in one invocation: the file of the sibling repository (whose configuration
	// ignores everything) next to the observed file, in both argument orders. Every file is filtered
	// by the configuration of its own repository.
	if c.Sibling != "" && !c.BadRegex && !c.BadFlag {
		sfile := w.Write(filepath.Join(c.Sibling, ".github/workflows/s.yml"), c.Workflow)
		for _, args := range [][]string{{file, sfile}, {sfile, file}} {
			got, files, exit, stderr, err := runActionlintFiles(w.Root, append(append([]string{}, flags...), args...)...)
			if err != nil || exit == 2 || exit == 3 {
				return "C15/run-failed", fmt.Sprintf("two repositories: %v exit %d stderr %q", err, exit, stderr), stats
			}
			stats["invocations"]++
			stats["two-repository-invocations"]++
			var mine, theirs []c15Diag
			for i, d := range got {
				if strings.HasPrefix(filepath.ToSlash(files[i]), filepath.ToSlash(c.Sibling)+"/") {
					theirs = append(theirs, d)
				} else {
					mine = append(mine, d)
				}
			}
			same := len(mine) == len(want)
			if same {
				for i := range mine {
					if mine[i] != want[i] {
						same = false
					}
				}
			}
			if !same || len(theirs) > 0 {
				r0, _ := filepath.Rel(w.Root, args[0])
				return "C15/file-filtered-by-the-configuration-of-another-repository", fmt.Sprintf("two repositories in one invocation, first argument %s\nobserved file: expected after filtering:\n%sgot:\n%ssibling file (its configuration ignores everything) got:\n%s%s", r0, diagsString(want), diagsString(mine), diagsString(theirs), c15Show(c)), stats
			}
		}
	}
	return "", "", stats
}

func yamlSingleQuote(s string) string { return "'" + strings.ReplaceAll(s, "'", "''") + "'" }

func c15Show(c *c15Case) string {
	b, _ := json.MarshalIndent(struct {
		File, RepoDir, Sibling string
		Paths                  []c15Path
		CLIIgnore              []string
	}{c.File, c.RepoDir, c.Sibling, c.Paths, c.CLIIgnore}, "", " ")
	return string(b) + "\n--- workflow\n" + c.Workflow
}

func init() {
	hx.RegisterReplayer("C15/world", func(r *hx.Run, data json.RawMessage) {
		var c c15Case
		if err := json.Unmarshal(data, &c); err != nil {
			panic(err)
		}
		if k, m, _ := checkIgnoreAndCwd(&c); k != "" {
			r.Report(k, m, "C15/world", &c)
		}
	})
}

// steps producing distinct diagnostics
var c15Steps = []string{
	"      - run: echo ${{ github.nosuch }}\n",
	"      - run: echo ${{ unknownctx.x }}\n",
	"      - run: echo\n        shell: zsh-unknown\n",
	"      - uses: actions/checkout@v4\n        with:\n          zz-unknown-input: 1\n",
	"      - run: echo ${{ matrix.nokey }}\n",
	"      - run: echo ${{ format('{0}') }}\n",
	"      - run: echo ${{ github.event.issue.title }}\n",
	"      - run: echo ::set-output name=a::b\n",
	"      - run: echo\n        id: dup\n      - run: echo\n        id: DUP\n",
	"      - uses: foo\n",
	"      - run: echo\n        zz-unknown-key: v\n",
}

func TestC15(t *testing.T) {
	if _, err := os.Stat(actionlintBin); err != nil {
		t.Fatalf("actionlint binary not built: %v", err)
	}
	hx.Main(t, "C15", func(r *hx.Run) {
		r.Rule = "temporary world: a repository (optionally nested two levels down, optionally next to a sibling repository whose name shares its prefix and whose configuration ignores everything) with a workflow producing 0-8 distinct diagnostics (now and then a file that is not YAML, not a mapping, or has no jobs), a configuration with 0-3 `paths` globs (matching all yaml, the workflows directory, the exact file, nothing; with *, **, ?, [a-c], [!x] and {a,b} forms) each with ignore regexes, and 0-3 -ignore regexes; regexes are escaped fragments of the unfiltered messages (matching none/some/all), also with inline flags such as (?i). Each world is run through the built actionlint binary from 17-19 (cwd, path spelling) combinations: repository root / parent / nested / unrelated directory x relative / ./ / absolute / no argument, plus four spellings through a symbolic link to the repository root, a path that leaves the repository and comes back, and the prefix-sharing sibling directory as cwd; when a sibling repository exists, also the observed file together with a file of the sibling in one invocation (both orders). Oracle: output = unfiltered list (same world without configuration and -ignore) minus messages matched by an applicable pattern (glob matched against the repository-relative path by the harness), identical for all combinations; exit status 1 iff diagnostics remain, 0 iff none, 3 for an invalid regex, 2 for an invalid flag. Non-trivial = >= 1 diagnostic removed and >= 1 kept, or a matching `paths` glob with cwd != repository root; distinct = case hash."
		r.Assumptions = []string{"file names are plain ASCII", "regexes are built from escaped message fragments so that the reference (Go regexp on messages) cannot disagree about regexp semantics"}
		r.Check(t, "worlds", hx.N(150, 4000), func(rt *rapid.T) {
			var wfb strings.Builder
			wfb.WriteString("on: push\njobs:\n  a:\n    runs-on: ")
			wfb.WriteString(rapid.SampledFrom([]string{"ubuntu-latest", "ubuntu-latest", "zz-unknown-label"}).Draw(rt, "label"))
			wfb.WriteString("\n    steps:\n")
			ns := rapid.IntRange(0, 6).Draw(rt, "nsteps")
			if ns == 0 {
				wfb.WriteString("      - run: echo\n")
			}
			for i := 0; i < ns; i++ {
				wfb.WriteString(rapid.SampledFrom(c15Steps).Draw(rt, "step"))
			}
			c := &c15Case{Workflow: wfb.String()}
			// now and then a file whose diagnostics come from the YAML / workflow-structure level
			switch rapid.IntRange(0, 15).Draw(rt, "brokenfile") {
			case 0:
				c.Workflow = "on: push\njobs:\n  a:\n   runs-on: ubuntu-latest\n  - oops: [\n" // not YAML
				r.Class("file-is-not-yaml")
			case 1:
				c.Workflow = "- a\n- b\n" // YAML, not a workflow
				r.Class("file-is-not-a-mapping")
			case 2:
				c.Workflow = "on: push\nzz-unknown: 1\n" // no jobs
				r.Class("file-without-jobs")
			}
			c.RepoDir = rapid.SampledFrom([]string{"repo", "repo", "deep/er/repo"}).Draw(rt, "repodir")
			if rapid.IntRange(0, 2).Draw(rt, "sibling") == 0 {
				c.Sibling = c.RepoDir + rapid.SampledFrom([]string{"2", "-old", "x/y"}).Draw(rt, "sibname")
			}
			name := rapid.SampledFrom([]string{"ci.yml", "build.yaml", "a-b.yml"}).Draw(rt, "fname")
			c.File = ".github/workflows/" + name
			// messages of the unfiltered run, to build regexes from
			msgs := func() []string {
				ds, _ := lint(c.Workflow)
				var ms []string
				for _, d := range ds {
					ms = append(ms, d.Msg)
				}
				return ms
			}()
			mkRegex := func() string {
				if len(msgs) == 0 || rapid.IntRange(0, 4).Draw(rt, "nomatch") == 0 {
					return rapid.SampledFrom([]string{"zz-matches-nothing", "^never$", "(?i)ZZ NOTHING"}).Draw(rt, "nm")
				}
				m := msgs[rapid.IntRange(0, len(msgs)-1).Draw(rt, "mi")]
				words := strings.Fields(m)
				i := rapid.IntRange(0, len(words)-1).Draw(rt, "wi")
				j := rapid.IntRange(i, min(len(words)-1, i+3)).Draw(rt, "wj")
				frag := strings.Join(words[i:j+1], " ")
				switch rapid.IntRange(0, 10).Draw(rt, "reform") {
				case 9:
					return "^" + regexp.QuoteMeta(frag) + "$" // anchored at both ends: matches only when the fragment is the whole message
				case 10:
					return `\A` + regexp.QuoteMeta(frag) + `\z`
				case 0:
					return "(?i)" + regexp.QuoteMeta(strings.ToUpper(frag))
				case 6:
					return regexp.QuoteMeta(strings.ToUpper(frag)) // wrong letter case: matches nothing (patterns are case-sensitive)
				case 7:
					return "(?s)" + regexp.QuoteMeta(frag) + ".*$"
				case 8:
					return regexp.QuoteMeta(words[0]) + "|" + "zz-alternative"
				case 1:
					return "^" + regexp.QuoteMeta(m) + "$"
				case 2:
					return regexp.QuoteMeta(frag) + ".*"
				case 3:
					return ".+" // everything
				}
				return regexp.QuoteMeta(frag)
			}
			for i := 0; i < rapid.IntRange(0, 3).Draw(rt, "ncli"); i++ {
				c.CLIIgnore = append(c.CLIIgnore, mkRegex())
			}
			globs := []string{"**/*.yaml", "**/*.yml", ".github/workflows/*.yml", ".github/workflows/*", c.File, "nomatch/**", ".github/**/*.y*ml", "*.yml", "**/ci.yml", ".github/workflows/*.{yml,yaml}", ".github/workflows/{ci,build,a-b}.y*", ".github/workflows/[!x]*.yml", ".github/workflows/[a-c]?*.y[a-z]*", ".github/workflows/[!a-c]*", "**/*.{yml,yaml}", ".github/workflows/c?.yml"}
			seen := map[string]bool{}
			for i := 0; i < rapid.IntRange(0, 3).Draw(rt, "npaths"); i++ {
				g := rapid.SampledFrom(globs).Draw(rt, "glob")
				if seen[g] {
					continue
				}
				seen[g] = true
				p := c15Path{Glob: g}
				for k := 0; k < rapid.IntRange(1, 2).Draw(rt, "nig"); k++ {
					p.Ignore = append(p.Ignore, mkRegex())
				}
				c.Paths = append(c.Paths, p)
			}
			switch rapid.IntRange(0, 19).Draw(rt, "bad") {
			case 0:
				c.BadRegex = true
			case 1:
				c.BadFlag = true
			}
			k, m, st := checkIgnoreAndCwd(c)
			r.Eval()
			if (st["removed"] > 0 && st["removed"] < st["unfiltered"]) || st["config-glob-applies"] > 0 {
				b, _ := json.Marshal(c)
				r.NT(string(b))
			}
			r.Class(fmt.Sprintf("unfiltered=%d", min(st["unfiltered"], 8)))
			if st["removed"] > 0 && st["removed"] < st["unfiltered"] {
				r.Class("some-removed-some-kept")
			} else if st["removed"] > 0 {
				r.Class("all-removed")
			} else {
				r.Class("none-removed")
			}
			if st["config-glob-applies"] > 0 {
				r.Class("config-glob-applies")
			}
			if c.Sibling != "" {
				r.Class("prefix-sharing-sibling-repository")
			}
			if c.BadRegex || c.BadFlag {
				r.Class("invalid-regex-or-flag")
			}
			r.Sample(c)
			if k != "" {
				r.Fail(rt, k, m, "C15/world", c)
			}
		})
		var ks []string
		for k := range r.Classes {
			ks = append(ks, k)
		}
		sort.Strings(ks)
	})
}
