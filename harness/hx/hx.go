// Package hx is the core of the verification harness: run parameters, statistics (evaluations,
// distinct non-trivial cases, class histogram, sample reservoir), violation recording with
// root-cause keys, known-findings handling and replay dispatch.
//
// One test process checks one property (possibly one shard of it). The python driver (/verif/check)
// passes everything through environment variables and collects one JSON result file per process.
package hx

import (
	"encoding/binary"
	"encoding/json"
	"flag"
	"fmt"
	"hash/fnv"
	"os"
	"path/filepath"
	"sort"
	"strconv"
	"strings"
	"sync"
	"testing"
	"time"

	"pgregory.net/rapid"
)

// Params of the current process, read once from the environment.
type Params struct {
	Tier    string // quick | thorough
	Seed    int    // VERIF_SEED
	Shard   int    // 0-based
	NShards int
	OutDir  string // directory for result files of this process
	Replay  string // path of a replay file, "" when not replaying
	Known   string // path of known_findings.json
	Verif   string // /verif
}

var P = func() Params {
	geti := func(k string, d int) int {
		if v, err := strconv.Atoi(os.Getenv(k)); err == nil {
			return v
		}
		return d
	}
	p := Params{
		Tier:    os.Getenv("VERIF_TIER"),
		Seed:    geti("VERIF_SEED", 1),
		Shard:   geti("VERIF_SHARD", 0),
		NShards: geti("VERIF_NSHARDS", 1),
		OutDir:  os.Getenv("VERIF_OUTDIR"),
		Replay:  os.Getenv("VERIF_REPLAY"),
		Known:   os.Getenv("VERIF_KNOWN"),
		Verif:   os.Getenv("VERIF_ROOT"),
	}
	if p.Tier == "" {
		p.Tier = "quick"
	}
	if p.Verif == "" {
		p.Verif = "/verif"
	}
	if p.Known == "" {
		p.Known = filepath.Join(p.Verif, "known_findings.json")
	}
	if p.OutDir == "" {
		p.OutDir = filepath.Join(p.Verif, ".build", "adhoc")
	}
	if p.NShards < 1 {
		p.NShards = 1
	}
	return p
}()

func Thorough() bool { return P.Tier == "thorough" }

// N picks a case count by tier.
func N(quick, thorough int) int {
	if Thorough() {
		return thorough
	}
	return quick
}

// Finding is an entry of known_findings.json.
type Finding struct {
	Property string          `json:"property"`
	Key      string          `json:"key"`
	Status   string          `json:"status"` // open | fixed
	Commit   string          `json:"commit,omitempty"`
	Summary  string          `json:"summary"`
	Witness  json.RawMessage `json:"witness,omitempty"`
}

// Violation is one (possibly known) violation observed by this process.
type Violation struct {
	Property string `json:"property"`
	Key      string `json:"key"`
	Message  string `json:"message"`
	Replay   string `json:"replay"`
	Known    bool   `json:"known"`
	Count    int    `json:"count"`
}

// Case is the serialised form of a failing (or corpus) case.
type Case struct {
	Property string          `json:"property"`
	Kind     string          `json:"kind"` // selects the replayer
	Data     json.RawMessage `json:"data"`
	Key      string          `json:"key,omitempty"`     // root-cause key observed when saved
	Message  string          `json:"message,omitempty"` // what failed
	Expect   string          `json:"expect,omitempty"`  // corpus: "hold" or "known:<key>"
	Note     string          `json:"note,omitempty"`
}

// Run accumulates the statistics and violations of one property in this process.
type Run struct {
	Property string
	mu       sync.Mutex
	start    time.Time

	Evaluations  int64
	NonTrivial   int64 // non-trivial evaluations (not necessarily distinct)
	distinct     map[uint64]struct{}
	distinctCap  int
	DistinctSeq  int64 // distinct by construction (exhaustive enumerators)
	Classes      map[string]int64
	samples      []any
	sampleSeen   int64
	Extra        map[string]any
	Exhaustive   bool
	Rule         string
	Assumptions  []string
	KnownHits    map[string]int64
	violations   map[string]*Violation
	knownOpen    map[string]Finding
	pendingFail  *pending // set by Fail within a rapid property; flushed after shrinking
	Discarded    int64
	DiscardNotes map[string]int64
}

type pending struct {
	key, msg string
	c        Case
}

func NewRun(property string) *Run {
	r := &Run{
		Property:     property,
		start:        time.Now(),
		distinct:     map[uint64]struct{}{},
		distinctCap:  2_000_000,
		Classes:      map[string]int64{},
		Extra:        map[string]any{},
		KnownHits:    map[string]int64{},
		violations:   map[string]*Violation{},
		knownOpen:    map[string]Finding{},
		DiscardNotes: map[string]int64{},
	}
	if b, err := os.ReadFile(P.Known); err == nil {
		var fs []Finding
		if err := json.Unmarshal(b, &fs); err != nil {
			panic("known_findings.json: " + err.Error())
		}
		for _, f := range fs {
			if f.Property == property && f.Status == "open" {
				r.knownOpen[f.Key] = f
			}
		}
	}
	return r
}

func Hash(parts ...string) uint64 {
	h := fnv.New64a()
	for _, p := range parts {
		h.Write([]byte(p))
		h.Write([]byte{0})
	}
	return h.Sum64()
}

// Eval counts one generated case.
func (r *Run) Eval() { r.mu.Lock(); r.Evaluations++; r.mu.Unlock() }

func (r *Run) EvalN(n int64) { r.mu.Lock(); r.Evaluations += n; r.mu.Unlock() }

// NT records a non-trivial case identified by the canonical string(s).
func (r *Run) NT(canon ...string) {
	h := Hash(canon...)
	r.mu.Lock()
	r.NonTrivial++
	if len(r.distinct) < r.distinctCap {
		r.distinct[h] = struct{}{}
	}
	r.mu.Unlock()
}

// NTSeq records n non-trivial cases that are distinct by construction (enumeration).
func (r *Run) NTSeq(n int64) { r.mu.Lock(); r.NonTrivial += n; r.DistinctSeq += n; r.mu.Unlock() }

func (r *Run) Class(name string) { r.mu.Lock(); r.Classes[name]++; r.mu.Unlock() }

func (r *Run) ClassN(name string, n int64) { r.mu.Lock(); r.Classes[name] += n; r.mu.Unlock() }

func (r *Run) Discard(why string) { r.mu.Lock(); r.Discarded++; r.DiscardNotes[why]++; r.mu.Unlock() }

// Sample offers a case to the reservoir (deterministic: keeps the first 3 and then every case whose
// ordinal is a power of two, up to 12).
func (r *Run) Sample(s any) {
	r.mu.Lock()
	defer r.mu.Unlock()
	r.sampleSeen++
	n := r.sampleSeen
	if len(r.samples) < 3 || (n&(n-1) == 0 && len(r.samples) < 12) {
		r.samples = append(r.samples, s)
	}
}

func trunc(s string, n int) string {
	if len(s) > n {
		return s[:n] + "…"
	}
	return s
}

// saveCase writes the case under evidence/replay and returns its path.
func (r *Run) saveCase(c Case) string {
	dir := filepath.Join(P.Verif, "evidence", "replay")
	os.MkdirAll(dir, 0o755)
	b, _ := json.MarshalIndent(c, "", " ")
	name := fmt.Sprintf("%s-%016x.json", r.Property, Hash(string(b)))
	p := filepath.Join(dir, name)
	os.WriteFile(p, b, 0o644)
	return p
}

// ReplayOf returns the replay file of a recorded violation key ("" if none).
func (r *Run) ReplayOf(key string) string {
	r.mu.Lock()
	defer r.mu.Unlock()
	if v, ok := r.violations[key]; ok {
		return v.Replay
	}
	return ""
}

// IsKnown reports whether key is an open known finding of this property.
func (r *Run) IsKnown(key string) bool { _, ok := r.knownOpen[key]; return ok }

// record stores a violation (known or not).
func (r *Run) record(key, msg string, c Case) {
	c.Property, c.Key, c.Message = r.Property, key, msg
	r.mu.Lock()
	defer r.mu.Unlock()
	if v, ok := r.violations[key]; ok {
		v.Count++
		return
	}
	_, known := r.knownOpen[key]
	path := r.saveCase(c)
	r.violations[key] = &Violation{Property: r.Property, Key: key, Message: trunc(msg, 2000), Replay: path, Known: known, Count: 1}
}

// Report is called by an oracle when it sees a violation outside rapid (enumerators, replay).
// Known-open keys are counted and the search continues; returns true when the violation is new.
func (r *Run) Report(key, msg string, kind string, data any) bool {
	raw, _ := json.Marshal(data)
	c := Case{Kind: kind, Data: raw}
	if r.IsKnown(key) {
		r.mu.Lock()
		r.KnownHits[key]++
		r.mu.Unlock()
		r.record(key, msg, c)
		return false
	}
	r.record(key, msg, c)
	return true
}

// Fail is called by an oracle inside a rapid property. For a known-open key it counts and returns
// (search continues: the class is excluded from failing, and the exclusion is counted); otherwise
// it remembers the case (the last remembered one is the shrunk one) and fails the rapid test.
func (r *Run) Fail(t *rapid.T, key, msg string, kind string, data any) {
	raw, _ := json.Marshal(data)
	c := Case{Kind: kind, Data: raw}
	if r.IsKnown(key) {
		r.mu.Lock()
		r.KnownHits[key]++
		r.mu.Unlock()
		r.record(key, msg, c)
		return
	}
	r.mu.Lock()
	r.pendingFail = &pending{key, msg, c}
	r.mu.Unlock()
	t.Fatalf("VIOLATION-CANDIDATE key=%s: %s", key, trunc(msg, 1500))
}

// Check runs a rapid property with the given number of cases under a sub-test, seeds derived from
// VERIF_SEED/shard, and converts a failure into a recorded violation (after shrinking).
func (r *Run) Check(t *testing.T, name string, checks int, prop func(t *rapid.T)) {
	t.Helper()
	if checks <= 0 {
		return
	}
	seed := int64(P.Seed)*1000003 + int64(P.Shard)*7919 + int64(Hash(name)%1000) + 1
	if seed == 0 {
		seed = 1
	}
	flag.Set("rapid.checks", strconv.Itoa(checks))
	flag.Set("rapid.seed", strconv.FormatInt(seed, 10))
	flag.Set("rapid.nofailfile", "true")
	flag.Set("rapid.shrinktime", "20s")
	t.Run(name, func(st *testing.T) {
		defer func() {
			r.mu.Lock()
			p := r.pendingFail
			r.pendingFail = nil
			r.mu.Unlock()
			if st.Failed() {
				if p != nil {
					r.record(p.key, p.msg, p.c)
				} else {
					// failure without a candidate: harness problem (panic inside generator etc.)
					r.record("harness/"+name, "rapid check failed without a recorded candidate (see log)", Case{Kind: "none"})
				}
			}
		}()
		rapid.Check(st, prop)
	})
}

// Replayer re-runs the oracle on a saved case; it reports through r.Report.
type Replayer func(r *Run, data json.RawMessage)

var replayers = map[string]Replayer{}

func RegisterReplayer(kind string, f Replayer) { replayers[kind] = f }

// ReplayFile runs one saved case. Returns the set of violation keys it produced.
func (r *Run) ReplayFile(path string) ([]string, error) {
	b, err := os.ReadFile(path)
	if err != nil {
		return nil, err
	}
	var c Case
	if err := json.Unmarshal(b, &c); err != nil {
		return nil, err
	}
	f, ok := replayers[c.Kind]
	if !ok {
		return nil, fmt.Errorf("no replayer for kind %q", c.Kind)
	}
	before := map[string]int{}
	r.mu.Lock()
	for k, v := range r.violations {
		before[k] = v.Count
	}
	r.mu.Unlock()
	f(r, c.Data)
	var keys []string
	r.mu.Lock()
	for k, v := range r.violations {
		if v.Count > before[k] {
			keys = append(keys, k)
		}
	}
	r.mu.Unlock()
	sort.Strings(keys)
	return keys, nil
}

// Corpus replays /verif/corpus/<property>/*.json. A case with expect "hold" must produce no
// violation; "known:<key>" documents an open finding (its violation is recorded as known by key).
func (r *Run) Corpus(t *testing.T) {
	dir := filepath.Join(P.Verif, "corpus", r.Property)
	ents, _ := os.ReadDir(dir)
	n := 0
	for _, e := range ents {
		if !strings.HasSuffix(e.Name(), ".json") {
			continue
		}
		n++
		keys, err := r.ReplayFile(filepath.Join(dir, e.Name()))
		if err != nil {
			t.Errorf("corpus %s: %v", e.Name(), err)
			r.record("harness/corpus", fmt.Sprintf("corpus file %s: %v", e.Name(), err), Case{Kind: "none"})
		}
		_ = keys
	}
	r.mu.Lock()
	r.Extra["corpus_cases_replayed"] = n
	r.mu.Unlock()
}

// Result is what a process writes for the driver.
type Result struct {
	Property     string           `json:"property"`
	Shard        int              `json:"shard"`
	Evaluations  int64            `json:"evaluations"`
	NonTrivial   int64            `json:"nontrivial_evaluations"`
	DistinctSeq  int64            `json:"distinct_by_construction"`
	HashFile     string           `json:"hash_file"`
	HashCount    int              `json:"hash_count"`
	Classes      map[string]int64 `json:"classes"`
	Samples      []any            `json:"samples"`
	Extra        map[string]any   `json:"extra"`
	Exhaustive   bool             `json:"exhaustive"`
	Rule         string           `json:"rule"`
	Assumptions  []string         `json:"assumptions"`
	KnownHits    map[string]int64 `json:"known_hits"`
	Violations   []*Violation     `json:"violations"`
	Discarded    int64            `json:"discarded"`
	DiscardNotes map[string]int64 `json:"discard_notes"`
	WallS        float64          `json:"wall_s"`
	Done         bool             `json:"done"`
}

// Finish writes the result file of this process. Call it with defer at the top of the test.
func (r *Run) Finish(t *testing.T) {
	os.MkdirAll(P.OutDir, 0o755)
	base := filepath.Join(P.OutDir, fmt.Sprintf("%s.shard%d", r.Property, P.Shard))
	hs := make([]uint64, 0, len(r.distinct))
	for h := range r.distinct {
		hs = append(hs, h)
	}
	sort.Slice(hs, func(i, j int) bool { return hs[i] < hs[j] })
	buf := make([]byte, 8*len(hs))
	for i, h := range hs {
		binary.LittleEndian.PutUint64(buf[8*i:], h)
	}
	os.WriteFile(base+".hashes", buf, 0o644)
	var vs []*Violation
	for _, v := range r.violations {
		vs = append(vs, v)
	}
	sort.Slice(vs, func(i, j int) bool { return vs[i].Key < vs[j].Key })
	res := Result{
		Property: r.Property, Shard: P.Shard, Evaluations: r.Evaluations, NonTrivial: r.NonTrivial,
		DistinctSeq: r.DistinctSeq, HashFile: base + ".hashes", HashCount: len(hs), Classes: r.Classes,
		Samples: r.samples, Extra: r.Extra, Exhaustive: r.Exhaustive, Rule: r.Rule, Assumptions: r.Assumptions,
		KnownHits: r.KnownHits, Violations: vs, Discarded: r.Discarded, DiscardNotes: r.DiscardNotes,
		WallS: time.Since(r.start).Seconds(), Done: true,
	}
	b, err := json.MarshalIndent(res, "", " ")
	if err != nil {
		// samples that cannot be marshalled: drop them rather than lose the result
		res.Samples = []any{fmt.Sprintf("unmarshalable samples: %v", err)}
		b, _ = json.MarshalIndent(res, "", " ")
	}
	os.WriteFile(base+".json", b, 0o644)
	for _, v := range vs {
		if !v.Known {
			t.Errorf("violation %s: %s (replay %s)", v.Key, trunc(v.Message, 600), v.Replay)
		}
	}
}

// Main is the common entry of a property test: replay mode or corpus + body.
func Main(t *testing.T, property string, body func(r *Run)) {
	r := NewRun(property)
	defer r.Finish(t)
	if P.Replay != "" {
		keys, err := r.ReplayFile(P.Replay)
		if err != nil {
			t.Fatalf("replay: %v", err)
		}
		r.Evaluations++
		t.Logf("replay produced violation keys: %v", keys)
		return
	}
	r.Corpus(t)
	body(r)
}

// LastCase lets a worker leave the case it is about to execute on disk, so that the driver can
// recover it when the process dies (fatal error, race detector abort, stack overflow).
func (r *Run) LastCase(kind string, data any) {
	raw, _ := json.Marshal(data)
	c := Case{Property: r.Property, Kind: kind, Data: raw}
	b, _ := json.Marshal(c)
	os.MkdirAll(P.OutDir, 0o755)
	os.WriteFile(filepath.Join(P.OutDir, fmt.Sprintf("%s.shard%d.lastcase", r.Property, P.Shard)), b, 0o644)
}
