// Package yamlemit renders a node tree to YAML text and records the position of every key and scalar.
package yamlemit

import (
	"fmt"
	"strings"
)

type Kind int

const (
	Scalar Kind = iota
	Map
	Seq
)

type Style int

const (
	Auto Style = iota // plain when safe, else single quoted
	Plain
	Single
	Double
	Literal // block scalar "|" (only in block context; falls back to Double elsewhere)
)

type Node struct {
	Kind  Kind
	Val   string
	Style Style
	Keys  []*Node
	Vals  []*Node // map values or seq items
	Flow  bool
	Tag   string // explicit tag like "!!float" (hostile mutations)
	Raw   string // if non-empty, emitted verbatim instead of Val (alias, anchors...)

	// recorded by Emit
	Line, Col  int // 1-based position of first character (quote included)
	ContentCol int // column of first content character (after quote)
	EndCol     int // column after last char on the same line (exclusive)

	// metadata for harness
	Path string // schema key path e.g. jobs.<job_id>.steps.run
	Info any
}

func S(v string) *Node           { return &Node{Kind: Scalar, Val: v} }
func Q(v string, st Style) *Node { return &Node{Kind: Scalar, Val: v, Style: st} }
func M() *Node                   { return &Node{Kind: Map} }
func L(items ...*Node) *Node     { return &Node{Kind: Seq, Vals: items} }
func (n *Node) Set(k string, v *Node) *Node {
	n.Keys = append(n.Keys, S(k))
	n.Vals = append(n.Vals, v)
	return n
}
func (n *Node) Get(k string) *Node {
	for i, kn := range n.Keys {
		if kn.Val == k {
			return n.Vals[i]
		}
	}
	return nil
}
func (n *Node) Del(k string) bool {
	for i, kn := range n.Keys {
		if kn.Val == k {
			n.Keys = append(n.Keys[:i:i], n.Keys[i+1:]...)
			n.Vals = append(n.Vals[:i:i], n.Vals[i+1:]...)
			return true
		}
	}
	return false
}

// Clone deep-copies the tree (positions reset).
func (n *Node) Clone() *Node {
	if n == nil {
		return nil
	}
	c := *n
	c.Keys = nil
	c.Vals = nil
	for _, k := range n.Keys {
		c.Keys = append(c.Keys, k.Clone())
	}
	for _, v := range n.Vals {
		c.Vals = append(c.Vals, v.Clone())
	}
	return &c
}

// Walk visits every node; for map entries key then value.
func (n *Node) Walk(f func(n *Node, parent *Node, idx int, isKey bool)) { n.walk(nil, 0, false, f) }
func (n *Node) walk(p *Node, idx int, isKey bool, f func(*Node, *Node, int, bool)) {
	f(n, p, idx, isKey)
	switch n.Kind {
	case Map:
		for i := range n.Keys {
			n.Keys[i].walk(n, i, true, f)
			n.Vals[i].walk(n, i, false, f)
		}
	case Seq:
		for i := range n.Vals {
			n.Vals[i].walk(n, i, false, f)
		}
	}
}

type Layout struct {
	Indent    int // spaces per level (>=1), default 2
	PadColon  int // extra spaces after ':' (>=0)
	PadDash   int // extra spaces after '-' (>=0)
	LeadLines int // comment lines at top
}

type emitter struct {
	b    strings.Builder
	line int
	col  int
	lay  Layout
}

func (e *emitter) write(s string) {
	for _, r := range s {
		if r == '\n' {
			e.line++
			e.col = 1
		} else {
			e.col++
		}
	}
	e.b.WriteString(s)
}

func needsQuote(v string, flow bool) bool {
	if v == "" {
		return true
	}
	if strings.TrimSpace(v) != v {
		return true
	}
	switch v[0] {
	case '[', ']', '{', '}', ',', '&', '*', '!', '|', '>', '\'', '"', '%', '@', '`', '#', '-', '?', ':':
		return true
	}
	if strings.Contains(v, ": ") || strings.Contains(v, " #") || strings.HasSuffix(v, ":") {
		return true
	}
	if flow && strings.ContainsAny(v, ",[]{}") {
		return true
	}
	for _, r := range v {
		if r < 0x20 || r == 0x7f || r == 0x85 || r == 0x2028 || r == 0x2029 || r == 0xfeff {
			return true
		}
	}
	return false
}

func hasCtl(v string) bool {
	for _, r := range v {
		if r < 0x20 || r == 0x7f || r == 0x85 || r == 0x2028 || r == 0x2029 || r == 0xfeff {
			return true
		}
	}
	return false
}

func (e *emitter) scalar(n *Node, flow bool) {
	n.Line, n.Col = e.line, e.col
	if n.Tag != "" {
		e.write(n.Tag + " ")
	}
	if n.Raw != "" {
		n.ContentCol = e.col
		e.write(n.Raw)
		n.EndCol = e.col
		return
	}
	st := n.Style
	if st == Literal {
		st = Double
	}
	if st == Auto || st == Plain {
		if needsQuote(n.Val, flow) {
			st = Single
		} else {
			st = Plain
		}
	}
	if st == Single && hasCtl(n.Val) {
		st = Double
	}
	switch st {
	case Plain:
		n.ContentCol = e.col
		e.write(n.Val)
	case Single:
		e.write("'")
		n.ContentCol = e.col
		e.write(strings.ReplaceAll(n.Val, "'", "''"))
		e.write("'")
	case Double:
		e.write("\"")
		n.ContentCol = e.col
		var b strings.Builder
		for _, r := range n.Val {
			switch {
			case r == '"':
				b.WriteString(`\"`)
			case r == '\\':
				b.WriteString(`\\`)
			case r == '\n':
				b.WriteString(`\n`)
			case r == '\r':
				b.WriteString(`\r`)
			case r == '\t':
				b.WriteString(`\t`)
			case r < 0x20 || r == 0x7f:
				fmt.Fprintf(&b, `\x%02x`, r)
			case r == 0x85 || r == 0x2028 || r == 0x2029 || r == 0xfeff:
				fmt.Fprintf(&b, `\u%04x`, r)
			default:
				b.WriteRune(r)
			}
		}
		e.write(b.String())
		e.write("\"")
	}
	n.EndCol = e.col
}

func (e *emitter) flow(n *Node) {
	switch n.Kind {
	case Scalar:
		e.scalar(n, true)
	case Map:
		n.Line, n.Col = e.line, e.col
		e.write("{")
		for i := range n.Keys {
			if i > 0 {
				e.write(", ")
			}
			e.scalar(n.Keys[i], true)
			e.write(": ")
			e.flow(n.Vals[i])
		}
		e.write("}")
	case Seq:
		n.Line, n.Col = e.line, e.col
		e.write("[")
		for i := range n.Vals {
			if i > 0 {
				e.write(", ")
			}
			e.flow(n.Vals[i])
		}
		e.write("]")
	}
}

func empty(n *Node) bool { return n.Kind != Scalar && len(n.Vals) == 0 }

// block emits node whose first token starts at the current cursor, with continuation lines at indent.
func (e *emitter) block(n *Node, indent int) {
	if n.Kind == Scalar && n.Style == Literal && n.Raw == "" && n.Tag == "" && literalOK(n.Val) {
		// block scalar: the indicator sits where the scalar would start, content lines follow
		n.Line, n.Col = e.line, e.col
		n.ContentCol = 0
		if strings.HasSuffix(n.Val, "\n") {
			e.write("|\n")
		} else {
			e.write("|-\n")
		}
		body := strings.TrimSuffix(n.Val, "\n")
		pad := strings.Repeat(" ", indent+e.lay.Indent)
		for _, l := range strings.Split(body, "\n") {
			if l == "" {
				e.write("\n")
			} else {
				e.write(pad + l + "\n")
			}
		}
		n.EndCol = n.Col + 1
		return
	}
	if n.Kind == Scalar || n.Flow || empty(n) {
		e.flow(n)
		e.write("\n")
		return
	}
	switch n.Kind {
	case Map:
		n.Line, n.Col = e.line, e.col
		for i := range n.Keys {
			if i > 0 {
				e.write(strings.Repeat(" ", indent))
			}
			e.scalar(n.Keys[i], false)
			e.write(":")
			v := n.Vals[i]
			if v.Kind == Scalar || v.Flow || empty(v) {
				e.write(strings.Repeat(" ", 1+e.lay.PadColon))
				e.block(v, indent)
			} else {
				e.write("\n")
				ni := indent + e.lay.Indent
				e.write(strings.Repeat(" ", ni))
				e.block(v, ni)
			}
		}
	case Seq:
		n.Line, n.Col = e.line, e.col
		for i := range n.Vals {
			if i > 0 {
				e.write(strings.Repeat(" ", indent))
			}
			e.write("-" + strings.Repeat(" ", 1+e.lay.PadDash))
			e.block(n.Vals[i], indent+2+e.lay.PadDash)
		}
	}
}

// Emit renders the tree and fills in positions.
func Emit(root *Node, lay Layout) string {
	if lay.Indent < 1 {
		lay.Indent = 2
	}
	e := &emitter{line: 1, col: 1, lay: lay}
	for i := 0; i < lay.LeadLines; i++ {
		e.write("# lead\n")
	}
	e.block(root, 0)
	return e.b.String()
}

// literalOK: the value can be written as a block scalar without changing it.
func literalOK(v string) bool {
	if v == "" || strings.HasPrefix(v, " ") || strings.HasPrefix(v, "\n") || hasCtlExceptNL(v) {
		return false
	}
	for _, l := range strings.Split(v, "\n") {
		if strings.HasSuffix(l, " ") || strings.HasPrefix(l, " ") || strings.HasPrefix(l, "\t") {
			return false
		}
	}
	return !strings.HasSuffix(v, "\n\n")
}

func hasCtlExceptNL(v string) bool {
	for _, r := range v {
		if r != '\n' && (r < 0x20 || r == 0x7f || r == 0x85 || r == 0x2028 || r == 0x2029 || r == 0xfeff) {
			return true
		}
	}
	return false
}
