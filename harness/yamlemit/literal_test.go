package yamlemit

import (
	"testing"

	"gopkg.in/yaml.v3"
)

func TestLiteral(t *testing.T) {
	for _, v := range []string{"echo a\necho b\n", "one line\n", "a\n\nb", "x: y\n# c\n", "a"} {
		for _, ind := range []int{1, 2, 5} {
			root := M().Set("k", M().Set("run", Q(v, Literal)).Set("z", S("1"))).Set("l", L(Q(v, Literal), S("w")))
			src := Emit(root, Layout{Indent: ind})
			var out map[string]any
			if err := yaml.Unmarshal([]byte(src), &out); err != nil {
				t.Fatalf("%v\n%s", err, src)
			}
			got := out["k"].(map[string]any)["run"].(string)
			got2 := out["l"].([]any)[0].(string)
			if got != v || got2 != v {
				t.Fatalf("want %q got %q / %q\n%s", v, got, got2, src)
			}
		}
	}
}
