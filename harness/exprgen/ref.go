// Package exprgen holds the harness's own model of the GitHub Actions expression language:
// a reference lexer and parser written from the documentation (not from actionlint's code),
// a canonical dump of both the reference tree and actionlint's tree (modulo associativity of
// same-level operators), and generators of expressions.
package exprgen

import (
	"regexp"
	"strings"
)

// Tok is a reference token.
type Tok struct {
	K   string // ident int float string END or the punctuation itself
	V   string
	Off int
}

var (
	reWS    = regexp.MustCompile(`^[ \t\r\n]+`)
	reIdent = regexp.MustCompile(`^[A-Za-z_][A-Za-z0-9_-]*`)
	// 0x hex: no superfluous leading zero (pinned by the repository's lexer tests: 0x0123 is an error)
	reHex = regexp.MustCompile(`^-?0x(0|[1-9a-fA-F][0-9a-fA-F]*)`)
	// JSON number; the exponent digits follow the repository-pinned rule (no leading zero: 1e01 is an
	// error in expr_lexer_test.go); exponent sign + or - as in JSON
	reNum  = regexp.MustCompile(`^-?(0|[1-9][0-9]*)(\.[0-9]+)?([eE][+-]?(0|[1-9][0-9]*))?`)
	reStr  = regexp.MustCompile(`^'([^']|'')*'`)
	puncts = []string{"<=", ">=", "==", "!=", "&&", "||", "(", ")", "[", "]", ".", "!", "<", ">", "*", ","}
)

func isAlnum(c byte) bool {
	return c >= '0' && c <= '9' || c >= 'a' && c <= 'z' || c >= 'A' && c <= 'Z'
}

// Lex returns the tokens up to and including END ("}}"); ok=false on a lexical error (including a
// missing end marker). errOff is the offset where the reference gave up (informational only).
func Lex(s string) (ts []Tok, ok bool) {
	off := 0
	for {
		if m := reWS.FindString(s[off:]); m != "" {
			off += len(m)
		}
		r := s[off:]
		if r == "" {
			return nil, false
		}
		if strings.HasPrefix(r, "}}") {
			ts = append(ts, Tok{"END", "", off})
			return ts, true
		}
		if m := reIdent.FindString(r); m != "" {
			ts = append(ts, Tok{"ident", m, off})
			off += len(m)
			continue
		}
		if r[0] == '-' || (r[0] >= '0' && r[0] <= '9') {
			m := reHex.FindString(r)
			kind := "int"
			hex := m != ""
			if m == "" {
				m = reNum.FindString(r)
				if strings.ContainsAny(m, ".eE") {
					kind = "float"
				}
			}
			if m == "" {
				return nil, false
			}
			rest := r[len(m):]
			if rest != "" {
				c := rest[0]
				if isAlnum(c) {
					return nil, false // a number is not followed by a letter or digit
				}
				if !hex && c == '.' && !strings.ContainsAny(m, ".eE") {
					return nil, false // "1." : a fraction needs digits
				}
			}
			ts = append(ts, Tok{kind, m, off})
			off += len(m)
			continue
		}
		if r[0] == '\'' {
			m := reStr.FindString(r)
			if m == "" {
				return nil, false
			}
			ts = append(ts, Tok{"string", m, off})
			off += len(m)
			continue
		}
		found := false
		for _, p := range puncts {
			if strings.HasPrefix(r, p) {
				ts = append(ts, Tok{p, p, off})
				off += len(p)
				found = true
				break
			}
		}
		if !found {
			return nil, false
		}
	}
}

// Node is a reference AST node.
//
//	var(Val=lower-cased name) null bool(Val) num(Val=literal text) str(Val=unescaped)
//	prop(Kids[0]=receiver, Val=lower-cased name) star(Kids[0]) idx(Kids[0]=operand, Kids[1]=index)
//	not(Kids[0]) cmp(Val=op, 2 kids) and(2 kids) or(2 kids) call(Val=name as written, Kids=args)
type Node struct {
	Kind string
	Val  string
	Kids []*Node
	Off  int // offset of the first token of the node
	Tok  int // offset of the node's own token (operator / property name / '[' )
}

type parser struct {
	ts  []Tok
	pos int
	bad bool
}

func (p *parser) peek() string { return p.ts[p.pos].K }
func (p *parser) next() Tok {
	t := p.ts[p.pos]
	if t.K != "END" {
		p.pos++
	}
	return t
}

func (p *parser) or() *Node {
	l := p.and()
	for !p.bad && p.peek() == "||" {
		t := p.next()
		r := p.and()
		if p.bad {
			return nil
		}
		l = &Node{Kind: "or", Kids: []*Node{l, r}, Off: l.Off, Tok: t.Off}
	}
	return l
}
func (p *parser) and() *Node {
	l := p.cmp()
	for !p.bad && p.peek() == "&&" {
		t := p.next()
		r := p.cmp()
		if p.bad {
			return nil
		}
		l = &Node{Kind: "and", Kids: []*Node{l, r}, Off: l.Off, Tok: t.Off}
	}
	return l
}
func IsCmp(k string) bool {
	switch k {
	case "<", "<=", ">", ">=", "==", "!=":
		return true
	}
	return false
}
func (p *parser) cmp() *Node {
	l := p.unary()
	for !p.bad && IsCmp(p.peek()) {
		t := p.next()
		r := p.unary()
		if p.bad {
			return nil
		}
		l = &Node{Kind: "cmp", Val: t.K, Kids: []*Node{l, r}, Off: l.Off, Tok: t.Off}
	}
	return l
}
func (p *parser) unary() *Node {
	if p.bad {
		return nil
	}
	if p.peek() == "!" {
		t := p.next()
		o := p.unary()
		if p.bad {
			return nil
		}
		return &Node{Kind: "not", Kids: []*Node{o}, Off: t.Off, Tok: t.Off}
	}
	return p.postfix()
}
func (p *parser) postfix() *Node {
	e := p.primary()
	for !p.bad {
		switch p.peek() {
		case ".":
			p.next()
			switch p.peek() {
			case "*":
				t := p.next()
				e = &Node{Kind: "star", Kids: []*Node{e}, Off: e.Off, Tok: t.Off}
			case "ident":
				t := p.next()
				e = &Node{Kind: "prop", Val: strings.ToLower(t.V), Kids: []*Node{e}, Off: e.Off, Tok: t.Off}
			default:
				p.bad = true
				return nil
			}
		case "[":
			t := p.next()
			i := p.or()
			if p.bad || p.peek() != "]" {
				p.bad = true
				return nil
			}
			p.next()
			e = &Node{Kind: "idx", Kids: []*Node{e, i}, Off: e.Off, Tok: t.Off}
		default:
			return e
		}
	}
	return e
}
func (p *parser) primary() *Node {
	if p.bad {
		return nil
	}
	t := p.next()
	switch t.K {
	case "ident":
		if p.peek() == "(" {
			p.next()
			args := []*Node{}
			if p.peek() == ")" {
				p.next()
			} else {
				for {
					a := p.or()
					if p.bad {
						return nil
					}
					args = append(args, a)
					if p.peek() == "," {
						p.next()
						continue
					}
					if p.peek() == ")" {
						p.next()
						break
					}
					p.bad = true
					return nil
				}
			}
			return &Node{Kind: "call", Val: t.V, Kids: args, Off: t.Off, Tok: t.Off}
		}
		switch t.V {
		case "null":
			return &Node{Kind: "null", Off: t.Off, Tok: t.Off}
		case "true", "false":
			return &Node{Kind: "bool", Val: t.V, Off: t.Off, Tok: t.Off}
		}
		return &Node{Kind: "var", Val: strings.ToLower(t.V), Off: t.Off, Tok: t.Off}
	case "int", "float":
		return &Node{Kind: "num", Val: t.V, Off: t.Off, Tok: t.Off}
	case "string":
		return &Node{Kind: "str", Val: strings.ReplaceAll(t.V[1:len(t.V)-1], "''", "'"), Off: t.Off, Tok: t.Off}
	case "(":
		e := p.or()
		if p.bad || p.peek() != ")" {
			p.bad = true
			return nil
		}
		p.next()
		return e
	}
	p.bad = true
	return nil
}

// Parse parses s (which must contain the "}}" end marker) with the reference grammar.
func Parse(s string) (*Node, bool) {
	ts, ok := Lex(s)
	if !ok {
		return nil, false
	}
	p := &parser{ts: ts}
	e := p.or()
	if p.bad || e == nil || p.peek() != "END" {
		return nil, false
	}
	return e, true
}

// Dump renders the reference tree canonically, flattening chains of the same operator level
// (the documented grammar fixes precedence, not associativity).
func (n *Node) Dump() string {
	switch n.Kind {
	case "var":
		return "(var " + n.Val + ")"
	case "null":
		return "null"
	case "bool":
		return n.Val
	case "num":
		return "(num " + n.Val + ")"
	case "str":
		return "(str " + n.Val + ")"
	case "prop":
		return "(prop " + n.Kids[0].Dump() + " " + n.Val + ")"
	case "star":
		return "(star " + n.Kids[0].Dump() + ")"
	case "idx":
		return "(idx " + n.Kids[0].Dump() + " " + n.Kids[1].Dump() + ")"
	case "not":
		return "(! " + n.Kids[0].Dump() + ")"
	case "cmp":
		var parts []string
		n.flatCmp(&parts)
		return "(cmp " + strings.Join(parts, " ") + ")"
	case "and", "or":
		var parts []string
		n.flat(n.Kind, &parts)
		op := "&&"
		if n.Kind == "or" {
			op = "||"
		}
		return "(" + op + " " + strings.Join(parts, " ") + ")"
	case "call":
		as := make([]string, len(n.Kids))
		for i, a := range n.Kids {
			as[i] = a.Dump()
		}
		return "(call " + n.Val + " " + strings.Join(as, " ") + ")"
	}
	return "?"
}
func (n *Node) flat(kind string, out *[]string) {
	if n.Kind == kind {
		n.Kids[0].flat(kind, out)
		n.Kids[1].flat(kind, out)
		return
	}
	*out = append(*out, n.Dump())
}
func (n *Node) flatCmp(out *[]string) {
	if n.Kind == "cmp" {
		n.Kids[0].flatCmp(out)
		*out = append(*out, n.Val)
		n.Kids[1].flatCmp(out)
		return
	}
	*out = append(*out, n.Dump())
}
