package exprgen

import (
	"fmt"
	"strings"

	al "github.com/rhysd/actionlint"
)

// DumpAL renders actionlint's tree in the same canonical form as (*Node).Dump.
func DumpAL(n al.ExprNode) string {
	switch n := n.(type) {
	case *al.VariableNode:
		return "(var " + n.Name + ")"
	case *al.NullNode:
		return "null"
	case *al.BoolNode:
		return fmt.Sprint(n.Value)
	case *al.IntNode:
		return "(num " + n.Token().Value + ")"
	case *al.FloatNode:
		return "(num " + n.Token().Value + ")"
	case *al.StringNode:
		return "(str " + n.Value + ")"
	case *al.ObjectDerefNode:
		return "(prop " + DumpAL(n.Receiver) + " " + n.Property + ")"
	case *al.ArrayDerefNode:
		return "(star " + DumpAL(n.Receiver) + ")"
	case *al.IndexAccessNode:
		return "(idx " + DumpAL(n.Operand) + " " + DumpAL(n.Index) + ")"
	case *al.NotOpNode:
		return "(! " + DumpAL(n.Operand) + ")"
	case *al.CompareOpNode:
		var parts []string
		flatCmpAL(n, &parts)
		return "(cmp " + strings.Join(parts, " ") + ")"
	case *al.LogicalOpNode:
		var parts []string
		flatAL(n, n.Kind, &parts)
		return "(" + n.Kind.String() + " " + strings.Join(parts, " ") + ")"
	case *al.FuncCallNode:
		as := []string{}
		for _, a := range n.Args {
			as = append(as, DumpAL(a))
		}
		return "(call " + n.Callee + " " + strings.Join(as, " ") + ")"
	}
	return fmt.Sprintf("?%T", n)
}

func flatAL(n al.ExprNode, kind al.LogicalOpNodeKind, out *[]string) {
	if l, ok := n.(*al.LogicalOpNode); ok && l.Kind == kind {
		flatAL(l.Left, kind, out)
		flatAL(l.Right, kind, out)
		return
	}
	*out = append(*out, DumpAL(n))
}

func flatCmpAL(n al.ExprNode, out *[]string) {
	if c, ok := n.(*al.CompareOpNode); ok {
		flatCmpAL(c.Left, out)
		*out = append(*out, c.Kind.String())
		flatCmpAL(c.Right, out)
		return
	}
	*out = append(*out, DumpAL(n))
}
