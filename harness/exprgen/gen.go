package exprgen

import (
	"fmt"
	"strings"

	"pgregory.net/rapid"
)

// ---- syntactic generator: random reference trees over the whole documented grammar -------------

var identPool = []string{"a", "github", "x-y", "_u", "b_1", "TRUE", "Null", "matrix", "a-", "n0"}
var funcPool = []string{"f", "contains", "format", "toJSON", "fromJson", "hashFiles", "always", "g-h"}
var strPool = []string{"", "s", "it''s", " ", "a b", "}}", "${{", "\"", "x''", "''''", "é", "a.b", "[0]"}
var numPool = []string{"0", "1", "42", "-1", "-0", "0x0", "0xff", "0xAb", "-0x1F", "1.5", "-0.25", "1e3", "1E-2", "2.5e10", "1e0", "0.0", "2147483647", "-2147483648", "0x7fffffff"}

// GenSyntax draws a random tree of roughly the given depth.
func GenSyntax(t *rapid.T, depth int) *Node {
	if depth <= 0 {
		return genLeaf(t)
	}
	switch rapid.IntRange(0, 11).Draw(t, "kind") {
	case 0, 1:
		return genLeaf(t)
	case 2:
		return &Node{Kind: "prop", Val: strings.ToLower(rapid.SampledFrom(identPool).Draw(t, "prop")), Kids: []*Node{GenSyntax(t, depth-1)}}
	case 3:
		return &Node{Kind: "star", Kids: []*Node{GenSyntax(t, depth-1)}}
	case 4:
		return &Node{Kind: "idx", Kids: []*Node{GenSyntax(t, depth-1), GenSyntax(t, depth-1)}}
	case 5:
		return &Node{Kind: "not", Kids: []*Node{GenSyntax(t, depth-1)}}
	case 6, 7:
		op := rapid.SampledFrom([]string{"==", "!=", "<", "<=", ">", ">="}).Draw(t, "op")
		return &Node{Kind: "cmp", Val: op, Kids: []*Node{GenSyntax(t, depth-1), GenSyntax(t, depth-1)}}
	case 8:
		return &Node{Kind: "and", Kids: []*Node{GenSyntax(t, depth-1), GenSyntax(t, depth-1)}}
	case 9:
		return &Node{Kind: "or", Kids: []*Node{GenSyntax(t, depth-1), GenSyntax(t, depth-1)}}
	default:
		n := rapid.IntRange(0, 3).Draw(t, "nargs")
		c := &Node{Kind: "call", Val: rapid.SampledFrom(funcPool).Draw(t, "fn"), Kids: []*Node{}}
		for i := 0; i < n; i++ {
			c.Kids = append(c.Kids, GenSyntax(t, depth-1))
		}
		return c
	}
}

func genLeaf(t *rapid.T) *Node {
	switch rapid.IntRange(0, 5).Draw(t, "leaf") {
	case 0:
		return &Node{Kind: "null"}
	case 1:
		return &Node{Kind: "bool", Val: rapid.SampledFrom([]string{"true", "false"}).Draw(t, "b")}
	case 2:
		return &Node{Kind: "num", Val: rapid.SampledFrom(numPool).Draw(t, "num")}
	case 3:
		return &Node{Kind: "str", Val: strings.ReplaceAll(rapid.SampledFrom(strPool).Draw(t, "str"), "''", "'")}
	default:
		return &Node{Kind: "var", Val: strings.ToLower(rapid.SampledFrom(identPool).Draw(t, "var"))}
	}
}

func level(n *Node) int {
	switch n.Kind {
	case "or":
		return 1
	case "and":
		return 2
	case "cmp":
		return 3
	case "not":
		return 4
	case "prop", "star", "idx":
		return 5
	}
	return 6
}

// Printer renders a tree to tokens; WS yields the whitespace to put before each token.
type Printer struct {
	WS       func() string
	Case     func(name string) string // re-spelling of identifiers/property names (nil = as is)
	Extra    func() bool              // add redundant parentheses?
	toks     []string
	TokNodes []*Node // node owning each token (first token of leaves, operator tokens)
}

func (p *Printer) tok(s string, n *Node) {
	p.toks = append(p.toks, s)
	p.TokNodes = append(p.TokNodes, n)
}

func (p *Printer) name(s string) string {
	if p.Case != nil {
		s = p.Case(s)
	}
	switch s {
	case "true", "false", "null":
		return strings.ToUpper(s) // keywords are case-sensitive: TRUE is a name, true is not
	}
	return s
}

func (p *Printer) emit(n *Node, minLevel int) {
	paren := level(n) < minLevel || (p.Extra != nil && p.Extra())
	if paren {
		p.tok("(", nil)
	}
	switch n.Kind {
	case "null":
		p.tok("null", n)
	case "bool":
		p.tok(n.Val, n)
	case "num":
		p.tok(n.Val, n)
	case "str":
		p.tok("'"+strings.ReplaceAll(n.Val, "'", "''")+"'", n)
	case "var":
		p.tok(p.name(n.Val), n)
	case "prop":
		p.recv(n.Kids[0])
		p.tok(".", nil)
		p.tok(p.name(n.Val), n)
	case "star":
		p.recv(n.Kids[0])
		p.tok(".", nil)
		p.tok("*", n)
	case "idx":
		p.recv(n.Kids[0])
		p.tok("[", n)
		p.emit(n.Kids[1], 1)
		p.tok("]", nil)
	case "not":
		p.tok("!", n)
		p.emit(n.Kids[0], 4)
	case "cmp":
		p.emit(n.Kids[0], 3)
		p.tok(n.Val, n)
		p.emit(n.Kids[1], 4)
	case "and":
		p.emit(n.Kids[0], 2)
		p.tok("&&", n)
		p.emit(n.Kids[1], 3)
	case "or":
		p.emit(n.Kids[0], 1)
		p.tok("||", n)
		p.emit(n.Kids[1], 2)
	case "call":
		p.tok(n.Val, n)
		p.tok("(", nil)
		for i, a := range n.Kids {
			if i > 0 {
				p.tok(",", nil)
			}
			p.emit(a, 1)
		}
		p.tok(")", nil)
	}
	if paren {
		p.tok(")", nil)
	}
}

// recv prints the receiver of a postfix operator; number literals are parenthesised because "1.a"
// is lexed as a malformed fraction.
func (p *Printer) recv(n *Node) {
	if n.Kind == "num" {
		p.tok("(", nil)
		p.emit(n, 1)
		p.tok(")", nil)
		return
	}
	p.emit(n, 5)
}

// Print returns the text (without end marker) and the offset of every token; n.Off/n.Tok of the
// tree nodes are filled in (Off = first token of the node, Tok = the node's own token).
func (p *Printer) Print(n *Node) (string, []int) {
	p.toks, p.TokNodes = nil, nil
	p.emit(n, 1)
	var b strings.Builder
	offs := make([]int, len(p.toks))
	for i, t := range p.toks {
		if p.WS != nil {
			b.WriteString(p.WS())
		}
		offs[i] = b.Len()
		if nd := p.TokNodes[i]; nd != nil {
			nd.Tok = b.Len()
		}
		b.WriteString(t)
	}
	if p.WS != nil {
		b.WriteString(p.WS())
	}
	return b.String(), offs
}

func (p *Printer) Tokens() []string { return p.toks }

// Plain prints with single spaces around binary operators and nothing elsewhere.
func Plain(n *Node) string {
	p := &Printer{}
	p.emit(n, 1)
	var b strings.Builder
	for i, t := range p.toks {
		switch t {
		case "&&", "||", "==", "!=", "<", "<=", ">", ">=":
			b.WriteString(" " + t + " ")
		case ",":
			b.WriteString(", ")
		default:
			_ = i
			b.WriteString(t)
		}
	}
	return b.String()
}

// RapidWS draws whitespace runs from rapid.
func RapidWS(t *rapid.T, multiline bool) func() string {
	pool := []string{"", "", " ", " ", "  ", "\t"}
	if multiline {
		pool = append(pool, "\n", " \n ", "\r\n")
	}
	return func() string { return rapid.SampledFrom(pool).Draw(t, "ws") }
}

func RapidCase(t *rapid.T) func(string) string {
	return func(s string) string {
		switch rapid.IntRange(0, 3).Draw(t, "case") {
		case 0:
			return strings.ToUpper(s)
		case 1:
			var b strings.Builder
			for i, r := range s {
				if i%2 == 0 {
					b.WriteString(strings.ToUpper(string(r)))
				} else {
					b.WriteRune(r)
				}
			}
			return b.String()
		}
		return s
	}
}

func (n *Node) String() string { return fmt.Sprintf("%s", n.Dump()) }
