module verifharness

go 1.23

require (
	github.com/fatih/color v1.18.0
	github.com/mattn/go-runewidth v0.0.16
	github.com/rhysd/actionlint v0.0.0
	gopkg.in/yaml.v3 v3.0.1
	pgregory.net/rapid v1.3.0
)

require (
	github.com/bmatcuk/doublestar/v4 v4.8.0 // indirect
	github.com/mattn/go-colorable v0.1.14 // indirect
	github.com/mattn/go-isatty v0.0.20 // indirect
	github.com/mattn/go-shellwords v1.0.12 // indirect
	github.com/rivo/uniseg v0.4.7 // indirect
	github.com/robfig/cron/v3 v3.0.1 // indirect
	golang.org/x/sync v0.10.0 // indirect
	golang.org/x/sys v0.29.0 // indirect
)

replace github.com/rhysd/actionlint => /repo
