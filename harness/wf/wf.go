// Package wf is the harness's own model of the GitHub Actions workflow syntax (written from
// GitHub's "Workflow syntax" reference, not from actionlint's parser) together with a generator of
// clean workflows. Every scalar leaf carries its workflow key path, whether it is evaluated as an
// expression template, and its expected type when a lone ${{ }} is assigned; every mapping with a
// fixed key set carries its section description (allowed and mandatory keys).
package wf

import (
	"fmt"
	"strings"

	"pgregory.net/rapid"
	ye "verifharness/yamlemit"
)

// Leaf describes a scalar value leaf.
type Leaf struct {
	Path     string // e.g. jobs.<job_id>.steps.run
	Template bool   // evaluated as an expression template
	Typed    string // "", "bool", "int", "float": only a lone ${{ }} is syntactically allowed
	Exempt   string // "", "event", "input-type", "permission", "inherit": not an expression template
	Script   bool   // run: script / github-script script
	AvailKey string // key of GitHub's context availability table that governs this leaf ("" = absent)
	Config   string // sibling configuration class (for coverage accounting)
}

// Section describes a mapping with a fixed key set.
type Section struct {
	Name      string
	Keys      []string
	Mandatory []string
	// OneOf: at least one of these must be present (run/uses)
	OneOf []string
	// CaseInsensitiveKeys: duplicate detection must be case-insensitive
	CaseInsensitive bool
}

// UserMap marks a mapping whose keys are user-chosen names.
type UserMap struct {
	Name            string
	CaseInsensitive bool
}

var Sections = map[string]*Section{
	"workflow":            {Name: "workflow", Keys: []string{"name", "run-name", "on", "permissions", "env", "defaults", "concurrency", "jobs"}, Mandatory: []string{"on", "jobs"}},
	"webhook":             {Name: "webhook", Keys: []string{"types", "branches", "branches-ignore", "tags", "tags-ignore", "paths", "paths-ignore", "workflows"}},
	"schedule-item":       {Name: "schedule-item", Keys: []string{"cron"}, Mandatory: []string{"cron"}},
	"workflow_dispatch":   {Name: "workflow_dispatch", Keys: []string{"inputs"}},
	"dispatch-input":      {Name: "dispatch-input", Keys: []string{"description", "required", "default", "type", "options"}},
	"repository_dispatch": {Name: "repository_dispatch", Keys: []string{"types"}},
	"workflow_call":       {Name: "workflow_call", Keys: []string{"inputs", "secrets", "outputs"}},
	"call-input":          {Name: "call-input", Keys: []string{"description", "required", "default", "type"}, Mandatory: []string{"type"}},
	"call-secret":         {Name: "call-secret", Keys: []string{"description", "required"}},
	"call-output":         {Name: "call-output", Keys: []string{"description", "value"}, Mandatory: []string{"value"}},
	"defaults":            {Name: "defaults", Keys: []string{"run"}},
	"defaults-run":        {Name: "defaults-run", Keys: []string{"shell", "working-directory"}},
	"concurrency":         {Name: "concurrency", Keys: []string{"group", "cancel-in-progress"}, Mandatory: []string{"group"}},
	"environment":         {Name: "environment", Keys: []string{"name", "url"}, Mandatory: []string{"name"}},
	"strategy":            {Name: "strategy", Keys: []string{"matrix", "fail-fast", "max-parallel"}},
	"container":           {Name: "container", Keys: []string{"image", "credentials", "env", "ports", "volumes", "options"}},
	"credentials":         {Name: "credentials", Keys: []string{"username", "password"}, Mandatory: []string{"username", "password"}},
	"runs-on":             {Name: "runs-on", Keys: []string{"labels", "group"}},
	"job":                 {Name: "job", Keys: []string{"name", "needs", "runs-on", "permissions", "environment", "concurrency", "outputs", "env", "defaults", "if", "steps", "timeout-minutes", "strategy", "continue-on-error", "container", "services"}, Mandatory: []string{"runs-on", "steps"}},
	"call-job":            {Name: "call-job", Keys: []string{"name", "needs", "permissions", "if", "uses", "with", "secrets", "strategy", "concurrency"}, Mandatory: []string{"uses"}},
	"run-step":            {Name: "run-step", Keys: []string{"id", "if", "name", "env", "continue-on-error", "timeout-minutes", "run", "shell", "working-directory"}, Mandatory: []string{"run"}},
	"uses-step":           {Name: "uses-step", Keys: []string{"id", "if", "name", "env", "continue-on-error", "timeout-minutes", "uses", "with"}, Mandatory: []string{"uses"}},
}

// G is the generator context.
type G struct {
	T *rapid.T
	n int
	// Rare raises the probability of rarely used sections (used by C03/C12/C13 which want coverage)
	Rare bool
}

func (g *G) b(label string) bool {
	if g.Rare {
		return rapid.IntRange(0, 2).Draw(g.T, label) > 0
	}
	return rapid.Bool().Draw(g.T, label)
}
func (g *G) i(label string, lo, hi int) int { return rapid.IntRange(lo, hi).Draw(g.T, label) }
func (g *G) pick(label string, xs []string) string {
	return rapid.SampledFrom(xs).Draw(g.T, label)
}
func (g *G) fresh(prefix string) string { g.n++; return fmt.Sprintf("%s%d", prefix, g.n) }

func leaf(v, path, avail string, l Leaf) *ye.Node {
	l.Path = path
	l.AvailKey = avail
	n := ye.S(v)
	n.Path = path
	n.Info = &l
	return n
}
func tmpl(v, path, avail string) *ye.Node { return leaf(v, path, avail, Leaf{Template: true}) }
// typed makes a bool/int/float leaf; now and then the literal is written as a lone expression.
func (g *G) typed(v, path, avail, ty string) *ye.Node {
	if g.i("typedexpr", 0, 4) == 0 {
		v = "${{ " + v + " }}"
	}
	return leaf(v, path, avail, Leaf{Template: true, Typed: ty})
}
func exempt(v, path, why string) *ye.Node { return leaf(v, path, "", Leaf{Exempt: why}) }
func sec(name string) *ye.Node {
	m := ye.M()
	m.Info = Sections[name]
	return m
}
func umap(name string, ci bool) *ye.Node {
	m := ye.M()
	m.Info = &UserMap{Name: name, CaseInsensitive: ci}
	return m
}

// LeafOf returns the leaf description of a scalar node (nil for others).
func LeafOf(n *ye.Node) *Leaf {
	if l, ok := n.Info.(*Leaf); ok {
		return l
	}
	return nil
}

// SectionOf returns the section description of a mapping node (nil for others).
func SectionOf(n *ye.Node) *Section {
	if s, ok := n.Info.(*Section); ok {
		return s
	}
	return nil
}

func UserMapOf(n *ye.Node) *UserMap {
	if s, ok := n.Info.(*UserMap); ok {
		return s
	}
	return nil
}

var events = []string{"push", "pull_request", "issues", "release", "workflow_run", "pull_request_target", "label", "issue_comment", "create"}

func (g *G) event(on *ye.Node, ev string) {
	switch ev {
	case "push", "pull_request", "pull_request_target":
		m := sec("webhook")
		p := "on." + ev
		if g.b("br") {
			if g.b("brign") {
				m.Set("branches-ignore", ye.L(tmpl("dev/**", p+".branches-ignore", ""), tmpl("wip", p+".branches-ignore", "")))
			} else {
				m.Set("branches", ye.L(tmpl("main", p+".branches", ""), tmpl("release/**", p+".branches", "")))
			}
		}
		if ev == "push" && g.b("tags") {
			if g.b("tagsign") {
				m.Set("tags-ignore", ye.L(tmpl("v0.*", p+".tags-ignore", "")))
			} else {
				m.Set("tags", ye.L(tmpl("v*", p+".tags", "")))
			}
		}
		if g.b("paths") {
			if g.b("pign") {
				m.Set("paths-ignore", ye.L(tmpl("docs/**", p+".paths-ignore", "")))
			} else {
				m.Set("paths", ye.L(tmpl("src/**", p+".paths", ""), tmpl("*.go", p+".paths", "")))
			}
		}
		if ev != "push" && g.b("types") {
			m.Set("types", ye.L(tmpl("opened", p+".types", ""), tmpl("edited", p+".types", "")))
		}
		if len(m.Keys) == 0 {
			m.Set("branches", ye.L(tmpl("main", p+".branches", "")))
		}
		on.Set(ev, m)
	case "issues":
		m := sec("webhook")
		m.Set("types", ye.L(tmpl("opened", "on.issues.types", ""), tmpl("labeled", "on.issues.types", "")))
		on.Set(ev, m)
	case "issue_comment":
		m := sec("webhook")
		m.Set("types", ye.L(tmpl("created", "on.issue_comment.types", "")))
		on.Set(ev, m)
	case "release", "label":
		m := sec("webhook")
		if g.b("scalar-types") {
			m.Set("types", tmpl("created", "on."+ev+".types", ""))
		} else {
			m.Set("types", ye.L(tmpl("created", "on."+ev+".types", "")))
		}
		on.Set(ev, m)
	case "create":
		on.Set(ev, &ye.Node{Kind: ye.Scalar, Raw: "null"})
	case "workflow_run":
		m := sec("webhook")
		m.Set("workflows", ye.L(tmpl("CI", "on.workflow_run.workflows", "")))
		if g.b("wrt") {
			m.Set("types", ye.L(tmpl("completed", "on.workflow_run.types", "")))
		}
		if g.b("wrb") {
			m.Set("branches", ye.L(tmpl("main", "on.workflow_run.branches", "")))
		}
		on.Set(ev, m)
	}
}

// WF is a generated workflow with the bookkeeping other checks need.
type WF struct {
	Root           *ye.Node
	HasCall        bool
	HasDispatch    bool
	CallInputs     []string
	CallSecrets    []string
	Jobs           []string
	JobOutputs     map[string][]string
	RegularJobs    []string // jobs with steps (not reusable workflow calls)
	CallSecDecl    bool
	DispatchInputs []string
	StepIDs        []string
}

// Workflow draws a random valid workflow.
func (g *G) Workflow() *WF {
	w := &WF{JobOutputs: map[string][]string{}}
	root := sec("workflow")
	w.Root = root
	if g.b("name") {
		root.Set("name", tmpl("CI workflow", "name", ""))
	}
	if g.b("run-name") {
		root.Set("run-name", tmpl("run by ${{ github.actor }}", "run-name", "run-name"))
	}
	// on
	switch g.i("onform", 0, 5) {
	case 0:
		root.Set("on", exempt(g.pick("ev", []string{"push", "pull_request", "issues"}), "on", "event"))
	case 1:
		root.Set("on", ye.L(exempt("push", "on", "event"), exempt("pull_request", "on", "event")))
	default:
		on := umap("on", false)
		ne := g.i("nev", 0, 2)
		seen := map[string]bool{}
		for k := 0; k < ne; k++ {
			ev := g.pick("evm", events)
			if !seen[ev] {
				seen[ev] = true
				g.event(on, ev)
			}
		}
		if g.b("sched") {
			item := sec("schedule-item")
			item.Set("cron", tmpl(g.pick("cron", []string{"0 0 * * *", "*/15 * * * *", "30 5 * * 1,3"}), "on.schedule.cron", ""))
			items := ye.L(item)
			if g.b("sched2") {
				item2 := sec("schedule-item")
				item2.Set("cron", tmpl("0 12 * * 0", "on.schedule.cron", ""))
				items.Vals = append(items.Vals, item2)
			}
			on.Set("schedule", items)
		}
		if g.b("dispatch") {
			w.HasDispatch = true
			d := sec("workflow_dispatch")
			if g.b("dinputs") {
				ins := umap("dispatch-inputs", true)
				for k := 0; k < g.i("ndin", 1, 3); k++ {
					in := sec("dispatch-input")
					name := g.fresh("din")
					w.DispatchInputs = append(w.DispatchInputs, name)
					p := "on.workflow_dispatch.inputs.<input_id>"
					if g.b("ddesc") {
						in.Set("description", tmpl("some input", p+".description", ""))
					}
					switch g.i("dtype", 0, 5) {
					case 0:
						in.Set("type", exempt("string", p+".type", "input-type"))
						if g.b("ddef") {
							in.Set("default", tmpl("dflt", p+".default", ""))
						}
					case 1:
						in.Set("type", exempt("boolean", p+".type", "input-type"))
						if g.b("ddef") {
							in.Set("default", tmpl("true", p+".default", ""))
						}
					case 2:
						in.Set("type", exempt("choice", p+".type", "input-type"))
						in.Set("options", ye.L(tmpl("one", p+".options", ""), tmpl("two", p+".options", "")))
						if g.b("ddef") {
							in.Set("default", tmpl("one", p+".default", ""))
						}
					case 3:
						in.Set("type", exempt("number", p+".type", "input-type"))
						if g.b("ddef") {
							in.Set("default", tmpl("3", p+".default", ""))
						}
					case 4:
						in.Set("type", exempt("environment", p+".type", "input-type"))
					default:
					}
					if g.b("dreq") {
						in.Set("required", g.typed("true", p+".required", "", "bool"))
					}
					if len(in.Keys) == 0 {
						in.Set("description", tmpl("x", p+".description", ""))
					}
					ins.Set(name, in)
				}
				d.Set("inputs", ins)
				on.Set("workflow_dispatch", d)
			} else {
				on.Set("workflow_dispatch", &ye.Node{Kind: ye.Scalar, Raw: "null"})
			}
		}
		if g.b("repodispatch") {
			rd := sec("repository_dispatch")
			rd.Set("types", ye.L(tmpl("deploy", "on.repository_dispatch.types", "")))
			on.Set("repository_dispatch", rd)
		}
		if g.b("call") {
			w.HasCall = true
			c := sec("workflow_call")
			if g.b("cin") {
				ins := umap("call-inputs", true)
				for k := 0; k < g.i("ncin", 1, 3); k++ {
					in := sec("call-input")
					name := g.fresh("cin")
					w.CallInputs = append(w.CallInputs, name)
					p := "on.workflow_call.inputs.<inputs_id>"
					ty := g.pick("cty", []string{"string", "boolean", "number"})
					in.Set("type", exempt(ty, p+".type", "input-type"))
					if g.b("cdesc") {
						in.Set("description", tmpl("desc", p+".description", ""))
					}
					if g.b("creq") {
						in.Set("required", g.typed("true", p+".required", "", "bool"))
					} else if g.b("cdef") {
						dv := map[string]string{"string": "x", "boolean": "true", "number": "42"}[ty]
						in.Set("default", tmpl(dv, p+".default", "on.workflow_call.inputs.<inputs_id>.default"))
					}
					ins.Set(name, in)
				}
				c.Set("inputs", ins)
			}
			if g.b("csec") {
				w.CallSecDecl = true
				ss := umap("call-secrets", true)
				for k := 0; k < g.i("ncsec", 1, 2); k++ {
					s := sec("call-secret")
					if g.b("csreq") || true {
						s.Set("required", g.typed(g.pick("csreqv", []string{"true", "false"}), "on.workflow_call.secrets.<secret_id>.required", "", "bool"))
					}
					if g.b("csd") {
						s.Set("description", tmpl("tok", "on.workflow_call.secrets.<secret_id>.description", ""))
					}
					name := g.fresh("sec")
					w.CallSecrets = append(w.CallSecrets, name)
					ss.Set(name, s)
				}
				c.Set("secrets", ss)
			}
			if len(c.Keys) == 0 {
				on.Set("workflow_call", &ye.Node{Kind: ye.Scalar, Raw: "null"})
			} else {
				on.Set("workflow_call", c)
			}
		}
		if len(on.Keys) == 0 {
			g.event(on, "push")
		}
		root.Set("on", on)
	}
	if g.b("perm") {
		root.Set("permissions", g.permissions("permissions"))
	}
	if g.b("env") {
		root.Set("env", g.env("env", "env"))
	}
	if g.b("defaults") {
		root.Set("defaults", g.defaults("defaults.run", ""))
	}
	if g.b("conc") {
		root.Set("concurrency", g.concurrency("concurrency", "concurrency"))
	}
	jobs := umap("jobs", true)
	nj := g.i("njobs", 1, 3)
	for k := 0; k < nj; k++ {
		id := g.fresh("job")
		if g.i("calljob", 0, 4) == 0 {
			jobs.Set(id, g.callJob(w, id))
		} else {
			jobs.Set(id, g.job(w, id))
			w.RegularJobs = append(w.RegularJobs, id)
		}
		w.Jobs = append(w.Jobs, id)
	}
	root.Set("jobs", jobs)
	if w.HasCall && g.b("cout") {
		on := root.Get("on")
		if c := on.Get("workflow_call"); c != nil && c.Kind == ye.Map {
			outs := umap("call-outputs", true)
			o := sec("call-output")
			val := "${{ github.sha }}"
			for _, j := range w.RegularJobs {
				if len(w.JobOutputs[j]) > 0 && g.b("coutjob") {
					val = "${{ jobs." + j + ".outputs." + w.JobOutputs[j][0] + " }}"
					break
				}
			}
			o.Set("value", tmpl(val, "on.workflow_call.outputs.<output_id>.value", "on.workflow_call.outputs.<output_id>.value"))
			if g.b("codesc") {
				o.Set("description", tmpl("out", "on.workflow_call.outputs.<output_id>.description", ""))
			}
			outs.Set(g.fresh("out"), o)
			c.Set("outputs", outs)
		}
	}
	return w
}

func (g *G) permissions(path string) *ye.Node {
	if g.b("permall") {
		return exempt(g.pick("permallv", []string{"read-all", "write-all"}), path, "permission")
	}
	pm := umap("permissions", false)
	pm.Set("contents", exempt("read", path+".<scope>", "permission"))
	if g.b("perm2") {
		pm.Set("issues", exempt("write", path+".<scope>", "permission"))
	}
	if g.b("perm3") {
		pm.Set("id-token", exempt("none", path+".<scope>", "permission"))
	}
	return pm
}

func (g *G) env(path, avail string) *ye.Node {
	if g.i("envexpr", 0, 7) == 0 {
		n := leaf("${{ fromJSON('{\"A\":\"b\"}') }}", path, avail, Leaf{Template: true, Typed: "obj", Config: "env-as-expression"})
		return n
	}
	m := umap("env", false) // letter case of environment variable names: not asserted
	for k := 0; k < g.i("nenv", 1, 2); k++ {
		m.Set(g.fresh("ENV_"), tmpl(g.pick("envv", []string{"value", "1", "${{ github.sha }}", "a ${{ github.ref }} b"}), path+".<env_id>", avail))
	}
	return m
}

func (g *G) defaults(path, avail string) *ye.Node {
	d := sec("defaults")
	r := sec("defaults-run")
	if g.b("dshell") {
		r.Set("shell", tmpl("bash", path+".shell", avail))
	}
	if g.b("dwd") || len(r.Keys) == 0 {
		r.Set("working-directory", tmpl("./src", path+".working-directory", avail))
	}
	d.Set("run", r)
	return d
}

func (g *G) concurrency(path, avail string) *ye.Node {
	if g.b("concscalar") {
		return tmpl("group-${{ github.ref }}", path, avail)
	}
	c := sec("concurrency")
	c.Set("group", tmpl("grp-${{ github.ref }}", path+".group", avail))
	if g.b("cip") {
		c.Set("cancel-in-progress", g.typed("true", path+".cancel-in-progress", avail, "bool"))
	}
	return c
}

func (g *G) container(path, avail string, allowScalar bool) *ye.Node {
	if allowScalar && g.b("cscalar") {
		return tmpl("node:18", path+".image", avail)
	}
	c := sec("container")
	cfg := ""
	c.Set("image", tmpl("ghcr.io/owner/image:1", path+".image", avail))
	if g.b("ccred") {
		cr := sec("credentials")
		cr.Set("username", tmpl("${{ github.actor }}", path+".credentials.username", avail+".credentials"))
		cr.Set("password", tmpl("${{ secrets.GITHUB_TOKEN }}", path+".credentials.password", avail+".credentials"))
		c.Set("credentials", cr)
	}
	if g.b("cenv") {
		m := umap("env", false)
		m.Set(g.fresh("CENV_"), tmpl("v", path+".env.<env_id>", avail+".env.<env_id>"))
		c.Set("env", m)
	}
	ports, vols := g.b("cports"), g.b("cvols")
	if ports {
		cfg += "+ports"
	}
	if vols {
		cfg += "+volumes"
	}
	mk := func(v, p string) *ye.Node {
		n := tmpl(v, p, avail)
		LeafOf(n).Config = cfg
		return n
	}
	// key order varies: volumes may come before or after ports
	if vols && g.b("volsfirst") {
		c.Set("volumes", ye.L(mk("/data:/data", path+".volumes")))
		vols = false
	}
	if ports {
		c.Set("ports", ye.L(mk("80", path+".ports"), mk("8080:80", path+".ports")))
	}
	if vols {
		c.Set("volumes", ye.L(mk("/data:/data", path+".volumes"), mk("/tmp/x", path+".volumes")))
	}
	if g.b("copts") {
		c.Set("options", tmpl("--cpus 1", path+".options", avail))
	}
	return c
}

var labels = []string{"ubuntu-latest", "ubuntu-22.04", "macos-latest", "windows-latest"}

func (g *G) strategy(p string) (*ye.Node, []string) {
	s := sec("strategy")
	av := "jobs.<job_id>.strategy"
	var keys []string
	if g.i("nomatrix", 0, 6) == 0 {
		// a strategy section without a matrix: only fail-fast / max-parallel
		which := g.i("nomatrixkeys", 0, 2)
		if which != 1 {
			s.Set("fail-fast", g.typed("false", p+".strategy.fail-fast", av, "bool"))
		}
		if which != 0 {
			s.Set("max-parallel", g.typed("2", p+".strategy.max-parallel", av, "int"))
		}
		return s, nil
	}
	if g.i("matrixexpr", 0, 7) == 0 {
		s.Set("matrix", leaf("${{ fromJSON(github.event.client_payload.matrix) }}", p+".strategy.matrix", av, Leaf{Template: true, Typed: "obj", Config: "matrix-as-expression"}))
		keys = nil
	} else {
		m := umap("matrix", true)
		includeOnly := g.i("mincludeonly", 0, 5) == 0 // a matrix defined by include entries alone
		if !includeOnly {
			keys = append(keys, "os")
			m.Set("os", ye.L(tmpl("ubuntu-latest", p+".strategy.matrix.<row>", av), tmpl("macos-latest", p+".strategy.matrix.<row>", av)))
		}
		if !includeOnly && g.b("mrow2") {
			keys = append(keys, "ver")
			m.Set("ver", ye.L(tmpl("1", p+".strategy.matrix.<row>", av), tmpl("2", p+".strategy.matrix.<row>", av)))
		}
		if !includeOnly && g.b("mrowexpr") {
			keys = append(keys, "dyn")
			m.Set("dyn", leaf("${{ fromJSON(github.event.client_payload.list) }}", p+".strategy.matrix.<row>", av, Leaf{Template: true, Typed: "arr", Config: "row-as-expression"}))
		}
		if !includeOnly && g.b("mobj") {
			keys = append(keys, "cfg")
			o := ye.M()
			o.Set("k", tmpl("v", p+".strategy.matrix.<row>.<nested-map>", av))
			o.Set("n", tmpl("1", p+".strategy.matrix.<row>.<nested-map>", av))
			o2 := ye.M()
			o2.Set("k", tmpl("w", p+".strategy.matrix.<row>.<nested-map>", av))
			o2.Set("l", ye.L(tmpl("x", p+".strategy.matrix.<row>.<nested-map>.<nested-seq>", av), tmpl("2", p+".strategy.matrix.<row>.<nested-map>.<nested-seq>", av)))
			m.Set("cfg", ye.L(o, o2))
		}
		if !includeOnly && g.b("mnested") {
			keys = append(keys, "grid")
			// heterogeneous nested sequences
			mk := func(v string) *ye.Node {
				n := tmpl(v, p+".strategy.matrix.<row>.<nested-seq>", av)
				LeafOf(n).Config = "nested-heterogeneous"
				return n
			}
			inner1 := ye.L(mk("1"), mk("true"), mk("x"))
			inner2 := ye.L(&ye.Node{Kind: ye.Scalar, Raw: "null"}, mk("2"), mk("y"))
			inner1.Flow, inner2.Flow = g.b("flow1"), g.b("flow2")
			m.Set("grid", ye.L(inner1, inner2))
		}
		if includeOnly || g.b("minc") {
			incs := ye.L()
			inc := ye.M()
			inc.Set("os", tmpl("windows-latest", p+".strategy.matrix.include.<key>", av))
			inc.Set("extra", tmpl("yes", p+".strategy.matrix.include.<key>", av))
			incs.Vals = append(incs.Vals, inc)
			keys = append(keys, "extra")
			if g.b("mincseq") {
				inc2 := ye.M()
				inc2.Set("os", tmpl("ubuntu-latest", p+".strategy.matrix.include.<key>", av))
				inc2.Set("list", ye.L(tmpl("1", p+".strategy.matrix.include.<key>.<nested-seq>", av), tmpl("true", p+".strategy.matrix.include.<key>.<nested-seq>", av), tmpl("z", p+".strategy.matrix.include.<key>.<nested-seq>", av)))
				incs.Vals = append(incs.Vals, inc2)
				keys = append(keys, "list")
			}
			if g.b("mincelemexpr") {
				incs.Vals = append(incs.Vals, leaf("${{ fromJSON('{\"os\":\"ubuntu-latest\"}') }}", p+".strategy.matrix.include.<element>", av, Leaf{Template: true, Typed: "obj", Config: "include-element-as-expression"}))
				keys = nil // expression-defined: unknown keys
			}
			m.Set("include", incs)
		} else if g.b("mincexpr") {
			m.Set("include", leaf("${{ fromJSON(github.event.client_payload.include) }}", p+".strategy.matrix.include", av, Leaf{Template: true, Typed: "arr", Config: "include-as-expression"}))
			keys = nil
		}
		if includeOnly && m.Get("include") != nil && m.Get("include").Kind == ye.Seq && g.b("mexcincludeonly") {
			// every variation comes from include; exclude refers to the keys defined there
			exc := ye.M()
			exc.Set("os", leaf("windows-latest", p+".strategy.matrix.exclude.<key>", av, Leaf{Template: true, Config: "include-only-matrix"}))
			m.Set("exclude", ye.L(exc))
		}
		if !includeOnly && g.b("mexc") {
			if g.b("mexcexpr") {
				m.Set("exclude", leaf("${{ fromJSON(github.event.client_payload.exclude) }}", p+".strategy.matrix.exclude", av, Leaf{Template: true, Typed: "arr", Config: "exclude-as-expression"}))
			} else {
				exc := ye.M()
				exc.Set("os", tmpl("macos-latest", p+".strategy.matrix.exclude.<key>", av))
				excs := ye.L(exc)
				if g.b("mexcelemexpr") {
					excs.Vals = append(excs.Vals, leaf("${{ fromJSON('{\"os\":\"ubuntu-latest\"}') }}", p+".strategy.matrix.exclude.<element>", av, Leaf{Template: true, Typed: "obj", Config: "exclude-element-as-expression"}))
				}
				m.Set("exclude", excs)
			}
		}
		s.Set("matrix", m)
	}
	if g.b("ff") {
		s.Set("fail-fast", g.typed("false", p+".strategy.fail-fast", av, "bool"))
	}
	if g.b("mp") {
		s.Set("max-parallel", g.typed("2", p+".strategy.max-parallel", av, "int"))
	}
	return s, keys
}

func (g *G) needs(w *WF, p string) *ye.Node {
	if g.b("needsscalar") {
		return tmpl(w.Jobs[0], p+".needs", "")
	}
	l := ye.L()
	for _, n := range w.Jobs {
		if g.b("need-" + n) {
			l.Vals = append(l.Vals, tmpl(n, p+".needs", ""))
		}
	}
	if len(l.Vals) == 0 {
		l.Vals = append(l.Vals, tmpl(w.Jobs[0], p+".needs", ""))
	}
	return l
}

func (g *G) callJob(w *WF, id string) *ye.Node {
	p := "jobs.<job_id>"
	j := sec("call-job")
	if g.b("jname") {
		j.Set("name", tmpl("Call "+id, p+".name", p+".name"))
	}
	if len(w.Jobs) > 0 && g.b("needs") {
		j.Set("needs", g.needs(w, p))
	}
	if g.b("jif") {
		j.Set("if", tmpl(g.pick("jifv", []string{"github.ref == 'refs/heads/main'", "${{ always() }}", "success()"}), p+".if", p+".if"))
	}
	j.Set("uses", tmpl(g.pick("callee", []string{"owner/repo/.github/workflows/build.yml@v1", "octo/shared/.github/workflows/ci.yaml@main", "owner/repo/.github/workflows/build.yml@v1", "octo/shared/.github/workflows/${{ format('{0}.yml', 'deploy') }}@v1"}), p+".uses", ""))
	if g.b("cwith") {
		wm := umap("with", true)
		wm.Set("param", tmpl("value", p+".with.<with_id>", p+".with.<with_id>"))
		if g.b("cwith2") {
			wm.Set("flag", tmpl("${{ github.event_name == 'push' }}", p+".with.<with_id>", p+".with.<with_id>"))
		}
		j.Set("with", wm)
	}
	if g.b("csecrets") {
		if g.b("inherit") {
			j.Set("secrets", exempt("inherit", p+".secrets", "inherit"))
		} else {
			sm := umap("secrets", true)
			sm.Set("token", tmpl("${{ secrets.GITHUB_TOKEN }}", p+".secrets.<secrets_id>", p+".secrets.<secrets_id>"))
			j.Set("secrets", sm)
		}
	}
	if g.b("cperm") {
		j.Set("permissions", g.permissions(p+".permissions"))
	}
	if g.b("cstrategy") {
		s, _ := g.strategy(p)
		j.Set("strategy", s)
	}
	if g.b("cconc") {
		j.Set("concurrency", g.concurrency(p+".concurrency", p+".concurrency"))
	}
	return j
}

func (g *G) job(w *WF, id string) *ye.Node {
	p := "jobs.<job_id>"
	j := sec("job")
	if g.b("jname") {
		j.Set("name", tmpl("Job "+id, p+".name", p+".name"))
	}
	if len(w.Jobs) > 0 && g.b("needs") {
		j.Set("needs", g.needs(w, p))
	}
	var mkeys []string
	hasMatrix := false
	if g.b("strategy") {
		s, keys := g.strategy(p)
		mkeys = keys
		hasMatrix = s.Get("matrix") != nil && s.Get("matrix").Kind == ye.Map
		j.Set("strategy", s)
	}
	_ = mkeys
	switch g.i("runson", 0, 5) {
	case 0:
		j.Set("runs-on", tmpl(g.pick("lab", labels), p+".runs-on", p+".runs-on"))
	case 1:
		j.Set("runs-on", ye.L(tmpl("self-hosted", p+".runs-on", p+".runs-on"), tmpl("linux", p+".runs-on", p+".runs-on")))
	case 2:
		r := sec("runs-on")
		r.Set("group", tmpl("my-group", p+".runs-on.group", p+".runs-on"))
		if g.b("rlabels") {
			if g.b("rlabelsscalar") {
				r.Set("labels", tmpl("ubuntu-latest", p+".runs-on.labels", p+".runs-on"))
			} else {
				r.Set("labels", ye.L(tmpl("ubuntu-latest", p+".runs-on.labels", p+".runs-on")))
			}
		}
		j.Set("runs-on", r)
	case 3:
		r := sec("runs-on")
		r.Set("labels", leaf("${{ fromJSON(github.event.client_payload.labels) }}", p+".runs-on.labels", p+".runs-on", Leaf{Template: true, Typed: "arr", Config: "labels-as-expression"}))
		j.Set("runs-on", r)
	default:
		if hasMatrix {
			j.Set("runs-on", leaf("${{ matrix.os }}", p+".runs-on", p+".runs-on", Leaf{Template: true, Config: "runs-on-as-expression"}))
		} else {
			j.Set("runs-on", tmpl("ubuntu-latest", p+".runs-on", p+".runs-on"))
		}
	}
	if g.b("jperm") {
		j.Set("permissions", g.permissions(p+".permissions"))
	}
	if g.b("jenvironment") {
		if g.b("envscalar") {
			j.Set("environment", tmpl("production", p+".environment", p+".environment"))
		} else {
			e := sec("environment")
			e.Set("name", tmpl("staging", p+".environment.name", p+".environment"))
			if g.b("envurl") {
				e.Set("url", tmpl("https://example.com", p+".environment.url", p+".environment.url"))
			}
			j.Set("environment", e)
		}
	}
	if g.b("jconc") {
		j.Set("concurrency", g.concurrency(p+".concurrency", p+".concurrency"))
	}
	if g.b("jenv") {
		j.Set("env", g.env(p+".env", p+".env"))
	}
	if g.b("jdefaults") {
		j.Set("defaults", g.defaults(p+".defaults.run", p+".defaults.run"))
	}
	if g.b("jif") {
		j.Set("if", tmpl(g.pick("jifv", []string{"github.ref == 'refs/heads/main'", "${{ always() }}", "success()"}), p+".if", p+".if"))
	}
	if g.b("jtimeout") {
		j.Set("timeout-minutes", g.typed("30", p+".timeout-minutes", p+".timeout-minutes", "float"))
	}
	if g.b("jcoe") {
		j.Set("continue-on-error", g.typed("true", p+".continue-on-error", p+".continue-on-error", "bool"))
	}
	if g.b("jcontainer") {
		j.Set("container", g.container(p+".container", p+".container", true))
	}
	if g.b("jservices") {
		if g.i("svcexpr", 0, 5) == 0 {
			j.Set("services", leaf("${{ fromJSON(github.event.client_payload.services) }}", p+".services", p+".services", Leaf{Template: true, Typed: "obj", Config: "services-as-expression"}))
		} else {
			ss := umap("services", false)
			ss.Set("db", g.container(p+".services.<service_id>", p+".services", false))
			if g.b("svc2") {
				ss.Set("cache", g.container(p+".services.<service_id>", p+".services", false))
			}
			j.Set("services", ss)
		}
	}
	steps := ye.L()
	ns := g.i("nsteps", 1, 4)
	var ids []string
	for k := 0; k < ns; k++ {
		steps.Vals = append(steps.Vals, g.step(&ids))
	}
	w.StepIDs = append(w.StepIDs, ids...)
	j.Set("steps", steps)
	if len(ids) > 0 && g.b("jout") {
		o := umap("outputs", true)
		name := g.fresh("res")
		o.Set(name, tmpl("${{ steps."+ids[0]+".outcome }}", p+".outputs.<output_id>", p+".outputs.<output_id>"))
		w.JobOutputs[id] = append(w.JobOutputs[id], name)
		j.Set("outputs", o)
	}
	return j
}

func (g *G) step(ids *[]string) *ye.Node {
	p := "jobs.<job_id>.steps"
	var s *ye.Node
	if g.b("isrun") {
		s = sec("run-step")
		run := tmpl(g.pick("runv", []string{"echo hello", "make test", "echo ${{ github.sha }}", "echo \"name=value\" >> \"$GITHUB_OUTPUT\""}), p+".run", p+".run")
		LeafOf(run).Script = true
		if g.i("runblock", 0, 3) == 0 {
			// multi-line script written as a block scalar
			run.Val = g.pick("runblockv", []string{"echo one\necho two\n", "set -x\nmake ${{ github.event_name }}\n\necho done\n", "if [ -n \"$X\" ]; then\n  echo ${{ github.sha }}\nfi", "echo \"v=1\" >> \"$GITHUB_OUTPUT\"\n"})
			run.Style = ye.Literal
		}
		s.Set("run", run)
		if g.b("sshell") {
			s.Set("shell", tmpl(g.pick("shv", []string{"bash", "pwsh", "python"}), p+".shell", ""))
		}
		if g.b("swd") {
			s.Set("working-directory", tmpl("./sub", p+".working-directory", p+".working-directory"))
		}
	} else {
		s = sec("uses-step")
		switch g.i("usesk", 0, 3) {
		case 0:
			s.Set("uses", tmpl("actions/checkout@v4", p+".uses", ""))
			if g.b("with") {
				w := umap("with", true)
				w.Set("fetch-depth", tmpl("0", p+".with.<with_id>", p+".with"))
				if g.b("with2") {
					w.Set("ref", tmpl("${{ github.ref }}", p+".with.<with_id>", p+".with"))
				}
				s.Set("with", w)
			}
		case 1:
			s.Set("uses", tmpl("docker://alpine:3.8", p+".uses", ""))
			w := umap("with", true)
			w.Set("entrypoint", tmpl("/bin/sh", p+".with.entrypoint", p+".with"))
			w.Set("args", tmpl("-c ls", p+".with.args", p+".with"))
			s.Set("with", w)
		case 2:
			s.Set("uses", tmpl("actions/github-script@v7", p+".uses", ""))
			w := umap("with", true)
			sc := tmpl("console.log('hello')", p+".with.script", p+".with")
			LeafOf(sc).Script = true
			// the action's other inputs, before or after the script
			other := func() {
				if g.b("gstoken") {
					w.Set("github-token", leaf("${{ github.token }}", p+".with.<with_id>", p+".with", Leaf{Template: true, Config: "github-script-other-input"}))
				}
				if g.b("gsenc") {
					w.Set("result-encoding", leaf("string", p+".with.<with_id>", p+".with", Leaf{Template: true, Config: "github-script-other-input"}))
				}
			}
			if g.b("gsotherfirst") {
				other()
				w.Set("script", sc)
			} else {
				w.Set("script", sc)
				other()
			}
			s.Set("with", w)
		default:
			s.Set("uses", tmpl("owner/unknown-action@v1", p+".uses", ""))
			w := umap("with", true)
			w.Set("anything", tmpl("goes", p+".with.<with_id>", p+".with"))
			s.Set("with", w)
		}
	}
	if g.b("sid") {
		id := g.fresh("step")
		*ids = append(*ids, id)
		s.Set("id", tmpl(id, p+".id", ""))
	}
	if g.b("sname") {
		s.Set("name", tmpl("Step name", p+".name", p+".name"))
	}
	if g.b("sif") {
		s.Set("if", tmpl(g.pick("sifv", []string{"failure()", "${{ github.event_name == 'push' }}", "always() && true"}), p+".if", p+".if"))
	}
	if g.b("senv") {
		s.Set("env", g.env(p+".env", p+".env"))
	}
	if g.b("scoe") {
		s.Set("continue-on-error", g.typed("false", p+".continue-on-error", p+".continue-on-error", "bool"))
	}
	if g.b("stm") {
		s.Set("timeout-minutes", g.typed("5", p+".timeout-minutes", p+".timeout-minutes", "float"))
	}
	return s
}

// Layout draws random layout parameters for the emitter.
func (g *G) Layout() ye.Layout {
	return ye.Layout{Indent: g.i("indent", 1, 6), PadColon: g.i("padcolon", 0, 2), PadDash: g.i("paddash", 0, 2), LeadLines: g.i("lead", 0, 3)}
}

// Styles randomly assigns quoting styles to string scalars and flow style to small collections.
func (g *G) Styles(root *ye.Node) {
	root.Walk(func(n, parent *ye.Node, idx int, isKey bool) {
		if n.Kind == ye.Scalar && n.Raw == "" && !isKey {
			l := LeafOf(n)
			if l != nil && l.Typed != "" && !strings.HasPrefix(n.Val, "${{") {
				return // bool/int/float literals must stay plain
			}
			if n.Val == "true" || n.Val == "false" || n.Val == "null" || isNumber(n.Val) || n.Val == "yes" || n.Style == ye.Literal {
				return // keep YAML type / block scalars
			}
			switch g.i("style", 0, 5) {
			case 0:
				n.Style = ye.Single
			case 1:
				n.Style = ye.Double
			}
		}
	})
}

func isNumber(s string) bool {
	if s == "" {
		return false
	}
	for _, c := range s {
		if (c < '0' || c > '9') && c != '.' && c != '-' {
			return false
		}
	}
	return true
}

// ShuffleKeys randomly permutes the entries of every mapping (key order carries no meaning in YAML
// mappings, but parsers that handle keys sequentially may depend on it).
func (g *G) ShuffleKeys(root *ye.Node) {
	root.Walk(func(n, _ *ye.Node, _ int, _ bool) {
		if n.Kind != ye.Map || len(n.Keys) < 2 {
			return
		}
		for i := len(n.Keys) - 1; i > 0; i-- {
			j := g.i("shuffle", 0, i)
			n.Keys[i], n.Keys[j] = n.Keys[j], n.Keys[i]
			n.Vals[i], n.Vals[j] = n.Vals[j], n.Vals[i]
		}
	})
}
