// Package world builds temporary directory trees (repositories with .git, .github/workflows,
// actionlint.yaml, local actions, reusable workflows) for checks that need a project on disk.
package world

import (
	"os"
	"path/filepath"
	"sort"
)

type World struct {
	Root  string            // absolute, symlink-free
	Files map[string]string // relative path -> content (as written)
}

// New creates an empty world under the system temp directory.
func New() *World {
	d, err := os.MkdirTemp("", "verif-world-")
	if err != nil {
		panic(err)
	}
	if r, err := filepath.EvalSymlinks(d); err == nil {
		d = r
	}
	return &World{Root: d, Files: map[string]string{}}
}

// Repo marks rel (a directory relative to the root, "" for the root) as a repository root.
func (w *World) Repo(rel string) {
	if err := os.MkdirAll(filepath.Join(w.Root, rel, ".git"), 0o755); err != nil {
		panic(err)
	}
	if err := os.MkdirAll(filepath.Join(w.Root, rel, ".github", "workflows"), 0o755); err != nil {
		panic(err)
	}
}

// Write creates a file (and its directories).
func (w *World) Write(rel, content string) string {
	p := filepath.Join(w.Root, rel)
	if err := os.MkdirAll(filepath.Dir(p), 0o755); err != nil {
		panic(err)
	}
	if err := os.WriteFile(p, []byte(content), 0o644); err != nil {
		panic(err)
	}
	w.Files[rel] = content
	return p
}

func (w *World) Path(rel string) string { return filepath.Join(w.Root, rel) }

// Sorted returns the relative file names in order.
func (w *World) Sorted() []string {
	var ks []string
	for k := range w.Files {
		ks = append(ks, k)
	}
	sort.Strings(ks)
	return ks
}

func (w *World) Cleanup() { os.RemoveAll(w.Root) }
