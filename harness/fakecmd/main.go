// fakecmd is the stand-in for shellcheck and pyflakes used by the C20 check. It reads the script
// from stdin, finds the marker line "# MARK id=<id> plan=<plan> n=<k> lat=<ms>" in it, appends a
// JSON record to the log named by $VERIF_FAKE_LOG, sleeps for the latency and then behaves as the
// plan dictates. The tool kind is taken from the name of the executable (…shellcheck / …pyflakes).
package main

import (
	"crypto/sha256"
	"encoding/json"
	"fmt"
	"io"
	"os"
	"path/filepath"
	"regexp"
	"strconv"
	"strings"
	"syscall"
	"time"
)

var reMark = regexp.MustCompile(`# MARK id=(\S+) plan=(\S+) n=(\d+) lat=(\d+)`)

type rec struct {
	Tool   string   `json:"tool"`
	Pid    int      `json:"pid"`
	ID     string   `json:"id"`
	Plan   string   `json:"plan"`
	Sha    string   `json:"sha256"`
	Stdin  string   `json:"stdin"`
	Args   []string `json:"args"`
	Start  int64    `json:"t_start"`
	End    int64    `json:"t_end"`
	Phase  string   `json:"phase"`
}

func logRec(r *rec) {
	p := os.Getenv("VERIF_FAKE_LOG")
	if p == "" {
		return
	}
	f, err := os.OpenFile(p, os.O_APPEND|os.O_CREATE|os.O_WRONLY, 0o644)
	if err != nil {
		return
	}
	b, _ := json.Marshal(r)
	f.Write(append(b, '\n'))
	f.Close()
}

func main() {
	tool := "shellcheck"
	if strings.Contains(filepath.Base(os.Args[0]), "pyflakes") {
		tool = "pyflakes"
	}
	start := time.Now().UnixNano()
	in, _ := io.ReadAll(os.Stdin)
	r := &rec{Tool: tool, Pid: os.Getpid(), Sha: fmt.Sprintf("%x", sha256.Sum256(in)), Stdin: string(in), Args: os.Args[1:], Start: start, Phase: "start", ID: "?", Plan: "ok"}
	n, lat := 0, 0
	if m := reMark.FindStringSubmatch(string(in)); m != nil {
		r.ID, r.Plan = m[1], m[2]
		n, _ = strconv.Atoi(m[3])
		lat, _ = strconv.Atoi(m[4])
	}
	logRec(r)
	time.Sleep(time.Duration(lat) * time.Millisecond)
	issues := func(k int) string {
		if tool == "pyflakes" {
			var b strings.Builder
			for i := 0; i < k; i++ {
				fmt.Fprintf(&b, "<stdin>:%d:1: fake issue %d of %s\n", i+1, i, r.ID)
			}
			return b.String()
		}
		var items []string
		for i := 0; i < k; i++ {
			items = append(items, fmt.Sprintf(`{"file":"-","line":%d,"endLine":%d,"column":1,"endColumn":2,"level":"info","code":%d,"message":"fake issue %d of %s.","fix":null}`, i+2, i+2, 1000+i, i, r.ID))
		}
		return "[" + strings.Join(items, ",") + "]\n"
	}
	finish := func() {
		r.End, r.Phase = time.Now().UnixNano(), "end"
		logRec(r)
	}
	switch r.Plan {
	case "ok":
		os.Stdout.WriteString(issues(0))
		finish()
	case "issues":
		os.Stdout.WriteString(issues(n))
		finish()
		if tool == "shellcheck" && n > 0 {
			os.Exit(1) // shellcheck exits 1 when it found something
		}
	case "exit-nonzero-silent":
		finish()
		os.Exit(3)
	case "kill":
		finish()
		syscall.Kill(os.Getpid(), syscall.SIGKILL)
		time.Sleep(time.Second)
	case "kill-after-output":
		os.Stdout.WriteString(issues(n))
		os.Stdout.Sync()
		finish()
		syscall.Kill(os.Getpid(), syscall.SIGKILL)
		time.Sleep(time.Second)
	case "empty":
		finish()
	case "two-documents":
		// a complete JSON array followed by another one: not a JSON document as a whole
		os.Stdout.WriteString(issues(n))
		os.Stdout.WriteString(issues(1))
		finish()
	case "json-then-garbage":
		os.Stdout.WriteString(issues(0))
		os.Stdout.WriteString(tool + ": internal error: something went wrong\n")
		finish()
	case "garbage":
		os.Stdout.WriteString("this is }{ not JSON\nnor pyflakes output\n")
		finish()
	default:
		finish()
	}
}
