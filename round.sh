#!/bin/bash
# usage: round.sh <round-number> <letter> <Cxx>...   -- confirm /tmp/seed<r>-Cxx as seeded/Cxx-<letter>, then run the quick check against it
r=$1; l=$2; shift 2
for p in "$@"; do
  echo "=== $p"
  /verif/confirm_seed.sh /tmp/seed$r-$p $p-$l 2>&1 | grep -vE "^WARNING" | tail -4
  git -C /repo worktree remove --force /tmp/confirm-$p-$l 2>/dev/null; rm -f /tmp/confirm-$p-$l.*
  if [ -d /verif/seeded/$p-$l ]; then /verif/seedtest.sh /verif/seeded/$p-$l/patch.diff $p 2>&1 | grep -vE "^WARNING"; fi
done
